/-
  BB.Lemmas.SuccTwoRun — the two runs side by side, as ghost lists: `two_run_ghost` (the decided ghost
  lists of both runs with `Corr` between them, the final ghost lists as `alignImg`, the final label
  tables as their layouts, and `Blocks` from the source to the -c side), and `SpanOK`: no `align`
  between a reference and its label, the pessimistic span below 1 MiB — moved from the source to the
  decided list along `Blocks`.
-/
import BB.Lemmas.SuccRun1
set_option linter.unusedSimpArgs false
set_option linter.unusedVariables false
namespace BB.Lemmas
open BB BB.Spec
open BB.Props.C03 (Land Finish Stage)
open BB.Props.C04 (aliased_fixed mapRegs_idem')
open BB.Props.C05 (immTokens)
open BB.Props.C20 (GrowHyps)

theorem labelNames_alignImg (G : List Item) : ∀ p : Int, labelNames (alignImg G p) = labelNames G := by
  induction G with
  | nil => intro p; rfl
  | cons x G ih =>
    intro p
    by_cases ha : ∃ l a, x = .align l a
    · obtain ⟨l, a, rfl⟩ := ha
      simp only [alignImg, labelNames_append, ih, labelNames]
      have : labelNames (padItems l a p) = [] := by
        unfold padItems
        split
        · split <;> rfl
        · rfl
      rw [this]; rfl
    · have hna : ∀ l a, x ≠ .align l a := fun l a e => ha ⟨l, a, e⟩
      rw [alignImg_cons_of_not_align hna]
      cases x <;> simp only [labelNames, ih]

/-- **the two runs as ghost lists** -/
theorem two_run_ghost (H : Hooks) (items : List Item) (hyp : GrowHyps H items) (constants : Dict)
    {items1 items2 : List Item} {labels2 : Dict}
    {a4 a7 : List Item} {la4 la7 : Dict}                 -- run 0
    {b3 b4 b6 b7 : List Item} {lb3 lb4 lb6 lb7 : Dict}   -- run 1
    (h1 : resolveConstants H items [] = .ok (items1, constants))
    (h2 : resolveLabels items1 [] = .ok (items2, labels2))
    (ha4 : transformPseudo H (resolveRegisterAliases items2 constants) constants labels2 = .ok (a4, la4))
    (ha7 : resolveAligns (resolveRegisterAliases a4 constants) la4 = .ok (a7, la7))
    (hb3 : maybeCompress H true (resolveRegisterAliases items2 constants) constants labels2 = .ok (b3, lb3))
    (hb4 : transformPseudo H b3 constants lb3 = .ok (b4, lb4))
    (hb6 : maybeCompress H true (resolveRegisterAliases b4 constants) constants lb4 = .ok (b6, lb6))
    (hb7 : resolveAligns b6 lb6 = .ok (b7, lb7)) :
    ∃ A4 B6 : List Item,
      walk (pseudoBody H constants) (resolveRegisterAliases items1 constants) 0 labels2 = .ok (A4, la4) ∧
      Corr H constants (resolveRegisterAliases A4 constants) B6 ∧
      strip (alignImg (resolveRegisterAliases A4 constants) 0) = a7 ∧ strip (alignImg B6 0) = b7 ∧
      NonNeg (resolveRegisterAliases A4 constants) ∧ NonNeg B6 ∧
      (labelNames B6).Nodup ∧ labelNames B6 = labelNames items ∧
      (∀ ℓ u, labelPos (alignImg (resolveRegisterAliases A4 constants) 0) 0 ℓ = some u → la7.get ℓ = some u) ∧
      (∀ ℓ u, labelPos (alignImg B6 0) 0 ℓ = some u → lb7.get ℓ = some u) ∧
      Blocks items B6 := by
  simp only [maybeCompress, if_true, transformCompressible] at hb3 hb6
  unfold transformPseudo at ha4 hb4
  unfold resolveAligns at ha7 hb7
  obtain ⟨c1, c2, c3⟩ := BB.Props.C03.resolveConstants_spec H items [] items1 constants h1
  obtain ⟨l1, l2, _, l4, l5⟩ := resolveLabelsAux_spec items1 0 [] [] items2 labels2 h2
  have st0 : Stage items1 items2 labels2 (labelNames items) := by
    refine ⟨l1.symm, c2 hyp.nonneg, l2, c1, l4, ?_⟩
    intro ℓ v hℓ hv
    rw [l5 ℓ hℓ] at hv
    simp [Dict.get, List.lookup] at hv
  have hnone2 : ∀ ℓ, ℓ ∉ labelNames items → labels2.get ℓ = none := by
    intro ℓ hℓ
    rw [l5 ℓ (by rw [c1]; exact hℓ)]
    simp [Dict.get, List.lookup]
  have st1 := BB.Props.C03.stage_aliases st0 constants
  obtain ⟨B3, wb3, sb3, _⟩ := stage_walk'' (compressBody_ok H constants) st1 hb3
  have hiw3 := walk_compress_IWd H constants _ 0 labels2 B3 lb3 wb3
  obtain ⟨A4, wa4, sa4, _⟩ := stage_walk'' (pseudoBody_ok H constants) st1 ha4
  obtain ⟨B4, wb4, sb4, _⟩ := stage_walk'' (pseudoBody_ok H constants) sb3 hb4
  have hsz : sizeSum (resolveRegisterAliases items1 constants) = sizeSum items := by
    rw [sizeSum_aliases, resolveConstants_sizeSum H items [] items1 constants h1]
  have hpseudo_mem : ∀ line name args, Item.pseudo line name args ∈ resolveRegisterAliases items1 constants →
      Item.pseudo line name args ∈ items := by
    intro line name args hm
    exact c3 _ (mem_aliases_other (by intro l i e; cases e) hm)
  have hcorr4 : Corr H constants A4 B4 := by
    refine pseudo_lockstep_corr H constants hyp.offset (sizeSum items) hyp.small hiw3 0 0 labels2 lb3 A4 B4 la4 lb4
      st1.nonneg st1.nodup ⟨st1.agree, st1.low⟩ ⟨sb3.agree, sb3.low⟩ ?_ (Int.le_refl _) (by rw [hsz]; omega) ?_ ?_ ?_ wa4 wb4
    · intro ℓ hℓ u0 hu0
      rw [aliases_labelNames, c1] at hℓ
      rw [hnone2 ℓ hℓ] at hu0
      cases hu0
    · intro line name args hm hk imm hpi
      exact hyp.li items1 constants h1 line name args (hpseudo_mem line name args hm) hk imm hpi
    · intro line name args ref hm hk ha
      exact hyp.calls items1 constants h1 line name args ref (hpseudo_mem line name args hm) hk ha
    · intro l i hm; exact aliased_fixed hm
  have hcorr5 := hcorr4.aliases
  have sa5 := BB.Props.C03.stage_aliases sa4 constants
  have sb5 := BB.Props.C03.stage_aliases sb4 constants
  obtain ⟨B6, wb6, sb6, _⟩ := stage_walk'' (compressBody_ok H constants) sb5 hb6
  have hcorr6 : Corr H constants (resolveRegisterAliases A4 constants) B6 :=
    hcorr5.then_iwd (fun l i hm => aliased_fixed hm) (walk_compress_IWd H constants _ 0 lb4 B6 lb6 wb6)
  obtain ⟨A7, wa7, sa7, _⟩ := stage_walk'' alignBody_ok sa5 ha7
  obtain ⟨B7, wb7, sb7, _⟩ := stage_walk'' alignBody_ok sb6 hb7
  have eA7 := walk_alignImg _ 0 la4 A7 la7 wa7
  have eB7 := walk_alignImg _ 0 lb6 B7 lb7 wb7
  subst eA7 eB7
  -- blocks
  have hblocks : Blocks items B6 := by
    have k1 := resolveConstants_blocks H items [] items1 constants h1
    have k2 := k1.trans (aliases_blocks constants items1)
    have k3 := k2.trans (walk_blocks _ (fun it _ => compressBody_blk H constants it) 0 labels2 B3 lb3 wb3)
    have hps : ∀ it ∈ B3, ∀ p L repl n, (∀ line nm, it ≠ .label line nm) →
        pseudoBody H constants it p L = .ok (repl, n) → Blk it repl := by
      intro it hit p L repl n hnl hb
      refine pseudoBody_blk H constants hyp.offset it p L repl n hnl (sb3.nonneg it hit) ?_ hb
      intro line name args e hk imm hpi
      subst e
      have hm1 := walk_mem_back (P := IsPseudo) (compressBody_no_new H constants (by rintro l i ⟨_, _, _, e⟩; cases e))
        _ 0 labels2 B3 lb3 wb3 _ hit ⟨line, name, args, rfl⟩
      exact hyp.li items1 constants h1 line name args (hpseudo_mem line name args hm1) hk imm hpi
    have k4 := k3.trans (walk_blocks _ hps 0 lb3 B4 lb4 wb4)
    have k5 := k4.trans (aliases_blocks constants B4)
    exact k5.trans (walk_blocks _ (fun it _ => compressBody_blk H constants it) 0 lb4 B6 lb6 wb6)
  exact ⟨A4, B6, wa4, hcorr6, sa7.strip_eq, sb7.strip_eq, sa5.nonneg, sb6.nonneg, sb6.nodup, sb6.names_eq,
    sa7.agree, sb7.agree, hblocks⟩

/-! ### spans -/

/-- a reference and its label: no `align` between them, and the stretch from the one to the other
    (the referring item included) is below 1 MiB -/
def SpanOK (G : List Item) : Prop :=
  ∀ P x S n, G = P ++ x :: S → Item.refs x n →
    (∀ Sa l Sb, S = Sa ++ .label l n :: Sb → NoAlign Sa ∧ sizeSum (x :: Sa) ≤ 1048575) ∧
    (∀ Pa l Pb, P = Pa ++ .label l n :: Pb → NoAlign Pb ∧ sizeSum (Pb ++ [x]) ≤ 1048575)

theorem refs_not_marker {x : Item} {n : String} (h : Item.refs x n) :
    (∀ l m, x ≠ .label l m) ∧ (∀ l a, x ≠ .align l a) := by
  rcases h with ⟨line, ins, imm, rfl, _⟩ | ⟨line, name, args, k, rfl, _⟩ <;>
    exact ⟨(fun l m e => by cases e), (fun l a e => by cases e)⟩

/-- a block that contains a marker is that marker's own -/
theorem Blk.of_label {s : Item} {rP rS : List Item} {l : Line} {n : String} (h : Blk s (rP ++ .label l n :: rS)) :
    s = .label l n ∧ rP = [] ∧ rS = [] := by
  have hmem : Item.label l n ∈ rP ++ .label l n :: rS := List.mem_append_right _ List.mem_cons_self
  by_cases hl : ∃ l' n', s = .label l' n'
  · obtain ⟨l', n', rfl⟩ := hl
    have := h.label l' n' rfl
    cases rP with
    | nil =>
      simp only [List.nil_append, List.cons.injEq] at this
      exact ⟨this.1.symm, rfl, this.2⟩
    | cons a t => cases t <;> simp at this
  · by_cases ha : ∃ l' a', s = .align l' a'
    · obtain ⟨l', a', rfl⟩ := ha
      have := h.align l' a' rfl
      rw [this] at hmem
      simp at hmem
    · exact absurd rfl ((h.other (fun l n e => hl ⟨l, n, e⟩) (fun l a e => ha ⟨l, a, e⟩) _ hmem).1 l n)

theorem noLabel_split {rS S' Sa Sb : List Item} {l : Line} {n : String} (hr : NoLabel rS)
    (h : rS ++ S' = Sa ++ .label l n :: Sb) : ∃ c, Sa = rS ++ c ∧ S' = c ++ .label l n :: Sb := by
  rcases List.append_eq_append_iff.mp h with ⟨c, hc1, hc2⟩ | ⟨c, hc1, hc2⟩
  · exact ⟨c, hc1, hc2⟩
  · cases c with
    | nil => exact ⟨[], by simpa using hc1.symm, by simpa using hc2.symm⟩
    | cons c0 c =>
      simp only [List.cons_append, List.cons.injEq] at hc2
      obtain ⟨rfl, _⟩ := hc2
      have : Item.label l n ∈ rS := by rw [hc1]; simp
      exact absurd rfl (hr _ this l n)

theorem noLabel_split_left {P' rP Pa Pb : List Item} {l : Line} {n : String} (hr : NoLabel rP)
    (h : P' ++ rP = Pa ++ .label l n :: Pb) : ∃ c, P' = Pa ++ .label l n :: c ∧ Pb = c ++ rP := by
  rcases List.append_eq_append_iff.mp h with ⟨c, hc1, hc2⟩ | ⟨c, hc1, hc2⟩
  · -- Pa = P' ++ c, rP = c ++ label :: Pb
    have : Item.label l n ∈ rP := by rw [hc2]; simp
    exact absurd rfl (hr _ this l n)
  · -- P' = Pa ++ c, label :: Pb = c ++ rP
    cases c with
    | nil =>
      simp only [List.nil_append] at hc2
      have : Item.label l n ∈ rP := by rw [← hc2]; simp
      exact absurd rfl (hr _ this l n)
    | cons c0 c =>
      simp only [List.cons_append, List.cons.injEq] at hc2
      obtain ⟨rfl, rfl⟩ := hc2
      exact ⟨c, hc1, rfl⟩

theorem Blocks.spanOK {G G' : List Item} (h : Blocks G G') (hnn : NonNeg G') (hG : SpanOK G) : SpanOK G' := by
  intro P1 x S1 n e hrefs
  obtain ⟨A, s, B, P', rP, rS, S', eG, eP, eS, bA, bB, bs⟩ := h.split e
  have hsrefs : Item.refs s n := bs.refs x (List.mem_append_right _ List.mem_cons_self) n hrefs
  obtain ⟨hsnl, hsna⟩ := refs_not_marker hsrefs
  have hblock := bs.other hsnl hsna
  have hrP : NoLabel rP ∧ NoAlign rP :=
    ⟨fun y hy => (hblock y (List.mem_append_left _ hy)).1, fun y hy => (hblock y (List.mem_append_left _ hy)).2⟩
  have hrS : NoLabel rS ∧ NoAlign rS :=
    ⟨fun y hy => (hblock y (List.mem_append_right _ (List.mem_cons_of_mem _ hy))).1,
     fun y hy => (hblock y (List.mem_append_right _ (List.mem_cons_of_mem _ hy))).2⟩
  have hxna : ∀ l a, x ≠ .align l a := (refs_not_marker hrefs).2
  have hsize := bs.size
  rw [sizeSum_append, sizeSum_cons] at hsize
  have hnnP1 : NonNeg P1 := fun y hy => hnn y (by rw [e]; exact List.mem_append_left _ hy)
  have hnnS1 : NonNeg S1 := fun y hy => hnn y (by rw [e]; exact List.mem_append_right _ (List.mem_cons_of_mem _ hy))
  have hxnn : 0 ≤ x.sizeD := hnn x (by rw [e]; exact List.mem_append_right _ List.mem_cons_self)
  have hnnrP : 0 ≤ sizeSum rP := sizeSum_nonneg (fun y hy => hnnP1 y (by rw [eP]; exact List.mem_append_right _ hy))
  have hnnrS : 0 ≤ sizeSum rS := sizeSum_nonneg (fun y hy => hnnS1 y (by rw [eS]; exact List.mem_append_left _ hy))
  obtain ⟨hfw, hbw⟩ := hG A s B n eG hsrefs
  refine ⟨?_, ?_⟩
  · intro Sa l Sb eSa
    rw [eS] at eSa
    obtain ⟨c, rfl, eS'⟩ := noLabel_split hrS.1 eSa
    obtain ⟨A2, s2, B2, P2', rP2, rS2, S2', eB, ec, eSb, bA2, bB2, bs2⟩ := bB.split eS'
    obtain ⟨rfl, rfl, rfl⟩ := bs2.of_label
    simp only [List.append_nil] at ec
    subst ec
    obtain ⟨hna, hsz⟩ := hfw A2 l B2 eB
    refine ⟨hrS.2.append (bA2.noAlign hna), ?_⟩
    have := bA2.sizeSum_le
    rw [sizeSum_cons] at hsz
    rw [sizeSum_cons, sizeSum_append]
    omega
  · intro Pa l Pb ePa
    rw [eP] at ePa
    obtain ⟨c, eP', rfl⟩ := noLabel_split_left hrP.1 ePa
    have eP'' : P' = Pa ++ .label l n :: c := eP'
    obtain ⟨A2, s2, B2, P2', rP2, rS2, S2', eA, ePa2, ec, bA2, bB2, bs2⟩ := bA.split eP''
    obtain ⟨rfl, rfl, rfl⟩ := bs2.of_label
    simp only [List.nil_append] at ec
    subst ec
    obtain ⟨hna, hsz⟩ := hbw A2 l B2 eA
    refine ⟨(bB2.noAlign hna).append hrP.2, ?_⟩
    have := bB2.sizeSum_le
    rw [sizeSum_append, sizeSum_cons] at hsz
    simp only [sizeSum_append, sizeSum_cons]
    simp only [sizeSum] at *
    simp at *
    omega

end BB.Lemmas
