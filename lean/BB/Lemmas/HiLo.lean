/-
  BB.Lemmas.HiLo — Python's `&` with a low mask / a single bit, `sign_extend`, `relocate_hi`,
  `relocate_lo` in closed arithmetic form (for every integer, no bound).
-/
import BB.Lemmas.Bits
namespace BB.Lemmas
open BB

theorem nat_and_pow2 (m k : Nat) : m &&& 2 ^ k = (m / 2 ^ k % 2) * 2 ^ k := by
  apply Nat.eq_of_testBit_eq; intro i
  rw [Nat.testBit_and, Nat.testBit_two_pow, Nat.testBit_mul_two_pow]
  by_cases h : k = i
  · subst h
    simp only [decide_true, Bool.and_true, Nat.le_refl, Nat.sub_self, Bool.true_and, Nat.testBit_zero]
    rw [Nat.testBit_eq_decide_div_mod_eq]
    simp
  · simp only [h, decide_false, Bool.and_false]
    by_cases hle : k ≤ i
    · simp only [hle, decide_true, Bool.true_and]
      rw [Nat.testBit_eq_decide_div_mod_eq]
      have hb : m / 2 ^ k % 2 < 2 := Nat.mod_lt _ (by omega)
      have hp : 2 ≤ 2 ^ (i - k) := by
        have : 2 ^ 1 ≤ 2 ^ (i - k) := Nat.pow_le_pow_right (by omega) (by omega)
        simpa using this
      have : m / 2 ^ k % 2 / 2 ^ (i - k) = 0 := Nat.div_eq_of_lt (by omega)
      simp [this]
    · simp [hle]

/-- `x & (2^k - 1) = x mod 2^k` for every Python int -/
theorem pyAnd_mask (x : Int) (k : Nat) : pyAnd x (Int.ofNat (2 ^ k - 1)) = x % ((2 ^ k : Nat) : Int) := by
  have hk : 0 < 2 ^ k := Nat.two_pow_pos k
  cases x with
  | ofNat m =>
    show Int.ofNat (m &&& (2 ^ k - 1)) = _
    rw [Nat.and_two_pow_sub_one_eq_mod]
    simp
  | negSucc m =>
    show Int.ofNat ((2 ^ k - 1) - ((2 ^ k - 1) &&& m)) = _
    rw [Nat.and_comm, Nat.and_two_pow_sub_one_eq_mod]
    generalize 2 ^ k = p at *
    have h1 : m % p < p := Nat.mod_lt _ hk
    rw [Int.negSucc_emod m (by omega)]
    simp only [Int.ofNat_eq_natCast]
    have : ((m : Int) % (p : Int)) = ((m % p : Nat) : Int) := by simp
    rw [this]
    omega

theorem pyAnd_0x800 (x : Int) : pyAnd x 0x800 = (x / 2048 % 2) * 2048 := by
  cases x with
  | ofNat m =>
    show Int.ofNat (m &&& 2 ^ 11) = _
    rw [nat_and_pow2]; simp only [Int.ofNat_eq_natCast, Nat.reducePow]; omega
  | negSucc m =>
    show Int.ofNat (2 ^ 11 - (2 ^ 11 &&& m)) = _
    rw [Nat.and_comm, nat_and_pow2]; simp only [Int.ofNat_eq_natCast, Nat.reducePow, Int.negSucc_eq]; omega

theorem pyAnd_0x80000 (x : Int) : pyAnd x 524288 = (x / 524288 % 2) * 524288 := by
  cases x with
  | ofNat m =>
    show Int.ofNat (m &&& 2 ^ 19) = _
    rw [nat_and_pow2]; simp only [Int.ofNat_eq_natCast, Nat.reducePow]; omega
  | negSucc m =>
    show Int.ofNat (2 ^ 19 - (2 ^ 19 &&& m)) = _
    rw [Nat.and_comm, nat_and_pow2]; simp only [Int.ofNat_eq_natCast, Nat.reducePow, Int.negSucc_eq]; omega

theorem pyAnd_32 (x : Int) : pyAnd x 32 = (x / 32 % 2) * 32 := by
  cases x with
  | ofNat m =>
    show Int.ofNat (m &&& 2 ^ 5) = _
    rw [nat_and_pow2]; simp only [Int.ofNat_eq_natCast, Nat.reducePow]; omega
  | negSucc m =>
    show Int.ofNat (2 ^ 5 - (2 ^ 5 &&& m)) = _
    rw [Nat.and_comm, nat_and_pow2]; simp only [Int.ofNat_eq_natCast, Nat.reducePow, Int.negSucc_eq]; omega

theorem pyAnd_0xfff (x : Int) : pyAnd x 0x00000fff = x % 4096 := pyAnd_mask x 12
theorem pyAnd_0x7ff (x : Int) : pyAnd x 2047 = x % 2048 := pyAnd_mask x 11
theorem pyAnd_0xfffff (x : Int) : pyAnd x 0x000fffff = x % 1048576 := pyAnd_mask x 20
theorem pyAnd_0x7ffff (x : Int) : pyAnd x 524287 = x % 524288 := pyAnd_mask x 19

/-- sign_extend(value, 12) -/
theorem signExtend12 (v : Int) : signExtend v 12 = v % 2048 - (v / 2048 % 2) * 2048 := by
  unfold signExtend
  simp only [Nat.reduceSub, Int.reducePow, Int.reduceSub]
  rw [pyAnd_0x7ff, pyAnd_0x800]

/-- sign_extend(value, 20) -/
theorem signExtend20 (v : Int) : signExtend v 20 = v % 524288 - (v / 524288 % 2) * 524288 := by
  unfold signExtend
  simp only [Nat.reduceSub, Int.reducePow, Int.reduceSub]
  rw [pyAnd_0x7ffff, pyAnd_0x80000]

/-- `relocate_lo` in closed form: the representative of `v` mod 4096 in [-2048, 2047] -/
theorem relocateLo_eq (v : Int) : relocateLo v = (v + 2048) % 4096 - 2048 := by
  unfold relocateLo
  rw [pyAnd_0xfff, signExtend12]
  omega

/-- `relocate_hi` in closed form -/
theorem relocateHi_eq (v : Int) :
    relocateHi v = ((v + 2048) / 4096 + 524288) % 1048576 - 524288 := by
  unfold relocateHi
  rw [pyAnd_0x800]
  simp only [pyShr_def, Int.reducePow]
  by_cases hb : v / 2048 % 2 * 2048 ≠ 0
  · rw [if_pos hb, pyAnd_0xfffff, signExtend20]
    omega
  · rw [if_neg hb, pyAnd_0xfffff, signExtend20]
    omega

end BB.Lemmas
