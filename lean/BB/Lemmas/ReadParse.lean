/-
  BB.Lemmas.ReadParse — the parser never inspects the `Line` it is given: it only stores it in the
  produced item and in `Err.asm line` errors.
-/
import BB.Lemmas.ReadLineMeta
namespace BB

theorem mapErrLine_fmap {α β : Type} (f : Line → Line) (g : α → β) (x : Except Err α) :
    mapErrLine f (g <$> x) = g <$> mapErrLine f x := by
  cases x <;> rfl

theorem parseImmAux_mapLine (f : Line → Line) (l : Line) :
    ∀ (n : Nat) (toks : List String),
      parseImmAux (f l) n toks = mapErrLine f (parseImmAux l n toks) := by
  intro n
  induction n with
  | zero => intro toks; rfl
  | succ n ih =>
    intro toks
    unfold parseImmAux
    split
    · rfl
    · dsimp only
      repeat' split
      all_goals first
        | rfl
        | (rw [ih, mapErrLine_fmap])

theorem parseImmediate_mapLine (f : Line → Line) (toks : List String) (l : Line) :
    parseImmediate toks (f l) = mapErrLine f (parseImmediate toks l) :=
  parseImmAux_mapLine f l _ _

theorem textHooks_natural (fs : FS) (f : Line → Line) : HooksNatural (textHooks fs) f :=
  fun toks l => parseImmediate_mapLine f toks l

theorem withImm_mapLine (f : Line → Line) (l : Line) (imm : List String) (k : Imm → Instr) :
    withImm (f l) imm k = (mapErrLine f (withImm l imm k)).map (Item.mapLine f) := by
  unfold withImm
  rw [parseImmediate_mapLine]
  cases parseImmediate imm l <;> rfl

theorem ordering_mapLine (f : Line → Line) (l : Line) (ord : List String) :
    ordering (f l) ord = mapErrLine f (ordering l ord) := by
  unfold ordering
  split <;> rfl

theorem baseOffset_error (f : Line → Line) (toks : List String) (e : Err)
    (h : baseOffset toks = .error e) : e.mapLine f = e := by
  unfold baseOffset at h
  repeat' split at h
  all_goals first
    | (injection h with h; subst h; rfl)
    | (exact absurd h (by simp))

theorem ite_nat (f : Line → Line) (c : Prop) [Decidable c] (a a' b b' : Except Err Item)
    (ha : a' = (mapErrLine f a).map (Item.mapLine f))
    (hb : b' = (mapErrLine f b).map (Item.mapLine f)) :
    (if c then a' else b') = (mapErrLine f (if c then a else b)).map (Item.mapLine f) := by
  split <;> assumption

theorem parseItemHead_mapLine (f : Line → Line) (l : Line) (head : String) (toks : List String) :
    parseItemHead (f l) head toks
      = (mapErrLine f (parseItemHead l head toks)).map (Item.mapLine f) := by
  unfold parseItemHead
  repeat' apply ite_nat
  all_goals try simp only [withImm_mapLine, parseImmediate_mapLine, ordering_mapLine]
  all_goals try rfl
  all_goals repeat' split
  all_goals try rfl
  all_goals first
    | (rename_i h; simp only [mapErrLine, Except.map, baseOffset_error f _ _ h])
    | simp_all [mapErrLine, Err.mapLine, Item.mapLine, Except.map]

theorem parseItem_mapLine (f : Line → Line) (l : Line) (toks : List String) :
    parseItem (f l) toks = (mapErrLine f (parseItem l toks)).map (Item.mapLine f) := by
  unfold parseItem
  simp only [parseItemHead_mapLine, parseImmediate_mapLine]
  repeat' split
  all_goals first
    | rfl
    | simp_all [mapErrLine, Err.mapLine, Item.mapLine, Except.map]

end BB
