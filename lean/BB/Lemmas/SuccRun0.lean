/-
  BB.Lemmas.SuccRun0 — what a successful run tells about its items: every item of the list held after
  resolve_aligns resolves (at its own offset, against the returned tables) and is finished into a blob;
  source instructions and the instructions of pseudo-instruction expansions are among them.
-/
import BB.Lemmas.SuccPseudo
set_option linter.unusedSimpArgs false
set_option linter.unusedVariables false
namespace BB.Lemmas
open BB BB.Spec
open BB.Props.C03 (Land Finish)

/-- resolve_immediates on an instruction (the jalr of an auipc pair is read 4 bytes earlier) -/
theorem immBody_instr_resolve' {H : Hooks} {constants L : Dict} {line : Line} {ins : Instr} {p : Int} {it' : Item}
    (h : immBody H constants (.instr line ins) p L = .ok ([it'], 0)) :
    ∃ p' rins, it' = .instr line rins ∧ resolveWith (evalAt H (chainGet constants L) line p') ins = some rins := by
  cases hi : ins.imm? with
  | none =>
    simp only [immBody, hi] at h
    have := (keepItem_ok h).1
    simp only [List.cons.injEq, and_true] at this
    exact ⟨p, ins, this, by simp [resolveWith, hi]⟩
  | some imm =>
    obtain ⟨v, hv, rfl⟩ := BB.Props.C08.instr_item_value H constants L line ins imm p it' hi h
    exact ⟨(if ins.isAuipcJump = true then p - 4 else p), _, rfl, by simp [resolveWith, hi, evalAt, hv, Except.toOption]⟩

theorem encodeInstr_of_finish {H : Hooks} {line line' : Line} {rins : Instr} {d : List Nat}
    (h : Finish H (.instr line rins) (.blob line' d)) : encodeInstr line rins = .ok d := by
  obtain ⟨args, w, ha, he, hd⟩ := finish_instr_bytes h
  simp [encodeInstr, ha, he, hd]

/-- every item of the final list of a `Land` resolves somewhere and is finished into a blob -/
theorem land_mem {H : Hooks} {constants L : Dict} {p : Int} {items out : List Item}
    (h : Land H constants L p items out) : ∀ x ∈ items,
    ∃ q it' line d, immBody H constants x q L = .ok ([it'], 0) ∧ Finish H it' (.blob line d) := by
  intro x hx
  obtain ⟨i, hi, rfl⟩ := List.getElem_of_mem hx
  obtain ⟨it', line, d, _, hb, hf, _⟩ := h.at i hi
  exact ⟨_, it', line, d, hb, hf⟩

/-- an instruction of the final list resolves (somewhere) to something its encoder accepts -/
theorem land_instr_accepts {H : Hooks} {constants L : Dict} {p : Int} {items out : List Item}
    (h : Land H constants L p items out) {line : Line} {ins : Instr} (hm : Item.instr line ins ∈ items) :
    ∃ q rins bs, resolveWith (evalAt H (chainGet constants L) line q) ins = some rins ∧
      encodeInstr line rins = .ok bs := by
  obtain ⟨q, it', line', d, hb, hf⟩ := land_mem h _ hm
  obtain ⟨q', rins, rfl, hres⟩ := immBody_instr_resolve' hb
  exact ⟨q', rins, d, hres, encodeInstr_of_finish hf⟩

theorem alignBody_keeps {it : Item} (hna : ∀ l a, it ≠ .align l a) {p : Int} {L : Dict} {repl : List Item} {n : Int}
    (h : alignBody it p L = .ok (repl, n)) : it ∈ repl := by
  have hk : keepItem it = .ok (repl, n) := by
    cases it <;> first | (simpa [alignBody] using h) | exact absurd rfl (hna _ _)
  rw [(keepItem_ok hk).1]; exact List.mem_cons_self

theorem pseudoBody_keeps {H : Hooks} {constants : Dict} {it : Item} (hnp : ∀ l n a, it ≠ .pseudo l n a)
    {p : Int} {L : Dict} {repl : List Item} {n : Int}
    (h : pseudoBody H constants it p L = .ok (repl, n)) : it ∈ repl := by
  rw [(keep_pseudoBody hnp h).1]; exact List.mem_cons_self

theorem mem_aliases_of_mem {G : List Item} {constants : Dict} {x : Item} (h : x ∈ G) :
    aliasItem constants x ∈ resolveRegisterAliases G constants := by
  unfold resolveRegisterAliases
  exact List.mem_map.mpr ⟨x, h, by cases x <;> rfl⟩

end BB.Lemmas
