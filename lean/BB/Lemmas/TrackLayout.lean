/-
  BB.Lemmas.TrackLayout — following ONE item and ONE label through a pass.

  `Shrinks G G'`      : G' is G with every non-marker item replaced by marker-free items of
                        non-negative sizes whose total is not larger (what every `walk` with `BodyOK`
                        does — `walk_shrinks`)
  `Closer a b`        : b is between 0 and a (same side of 0, not farther): the relation between a
                        distance at decision time and the same distance later
  `dist A y B ℓ`      : signed distance from the start of item `y` to the marker of `ℓ` in the ghost
                        list `A ++ y :: B`
  `dist_shrink`       : shrinking what is before / after and the item itself brings the marker `Closer`
  `walk_track`        : a `walk` read at one output item: which input item produced it, at which
                        position and against which label table (the table IS the layout of the hybrid
                        list: transformed prefix ++ untransformed rest)
-/
import BB.Lemmas.Bodies
import BB.Lemmas.Pipeline
set_option linter.unusedSimpArgs false
set_option linter.unusedVariables false
namespace BB.Lemmas
open BB

/-! ### `Closer` -/

/-- `b` lies between 0 and `a`; a positive distance stays positive -/
def Closer (a b : Int) : Prop := (0 < a → 0 < b ∧ b ≤ a) ∧ (a ≤ 0 → a ≤ b ∧ b ≤ 0)

theorem Closer.refl (a : Int) : Closer a a := ⟨fun h => ⟨h, Int.le_refl _⟩, fun h => ⟨Int.le_refl _, h⟩⟩

theorem Closer.trans {a b c : Int} (h1 : Closer a b) (h2 : Closer b c) : Closer a c := by
  unfold Closer at *
  constructor
  · intro ha
    obtain ⟨hb, hba⟩ := h1.1 ha
    obtain ⟨hc, hcb⟩ := h2.1 hb
    exact ⟨hc, by omega⟩
  · intro ha
    obtain ⟨hab, hb⟩ := h1.2 ha
    obtain ⟨hbc, hc⟩ := h2.2 hb
    exact ⟨by omega, hc⟩

/-- a closed interval around 0 that contains the old distance contains the new one -/
theorem Closer.between {a b lo hi : Int} (h : Closer a b) (hlo : lo ≤ 0) (hhi : 0 ≤ hi)
    (h1 : lo ≤ a) (h2 : a ≤ hi) : lo ≤ b ∧ b ≤ hi := by
  unfold Closer at h
  by_cases ha : 0 < a
  · obtain ⟨hb, hba⟩ := h.1 ha; omega
  · obtain ⟨hab, hb⟩ := h.2 (by omega); omega

/-! ### layout of an appended list -/

theorem labelPos_cons_of_not_label {it : Item} (h : ∀ l n, it ≠ .label l n) (G : List Item) (p : Int)
    (ℓ : String) : labelPos (it :: G) p ℓ = labelPos G (p + it.sizeD) ℓ := by
  cases it <;> first | rfl | exact absurd rfl (h _ _)

theorem labelNames_cons_of_not_label {it : Item} (h : ∀ l n, it ≠ .label l n) (G : List Item) :
    labelNames (it :: G) = labelNames G := by
  cases it <;> first | rfl | exact absurd rfl (h _ _)

theorem labelNames_append (a b : List Item) : labelNames (a ++ b) = labelNames a ++ labelNames b := by
  induction a with
  | nil => rfl
  | cons it rest ih =>
    cases it <;> simp only [List.cons_append, labelNames, ih, List.cons_append]

theorem sizeD_label (l : Line) (n : String) : (Item.label l n).sizeD = 0 := by
  simp [Item.sizeD, Item.size?]

theorem labelPos_append_mem (a b : List Item) (p : Int) (ℓ : String) (h : ℓ ∈ labelNames a) :
    labelPos (a ++ b) p ℓ = labelPos a p ℓ := by
  induction a generalizing p with
  | nil => simp [labelNames] at h
  | cons it rest ih =>
    cases it with
    | label line n =>
      simp only [List.cons_append, labelPos]
      split
      · rfl
      · rename_i hne
        simp only [labelNames, List.mem_cons] at h
        rcases h with h | h
        · exact absurd h.symm hne
        · exact ih p h
    | _ =>
      simp only [List.cons_append, labelPos]
      exact ih _ (by simpa [labelNames] using h)

theorem labelPos_append_not_mem (a b : List Item) (p : Int) (ℓ : String) (h : ℓ ∉ labelNames a) :
    labelPos (a ++ b) p ℓ = labelPos b (p + sizeSum a) ℓ := by
  induction a generalizing p with
  | nil => simp [sizeSum]
  | cons it rest ih =>
    cases it with
    | label line n =>
      simp only [labelNames, List.mem_cons, not_or] at h
      simp only [List.cons_append, labelPos, sizeSum_cons, sizeD_label]
      rw [if_neg (fun e => h.1 e.symm), ih p h.2]
      congr 1; omega
    | _ =>
      simp only [List.cons_append, labelPos, sizeSum_cons]
      rw [ih _ (by simpa [labelNames] using h)]
      congr 1; omega

/-! ### `Shrinks` -/

inductive Shrinks : List Item → List Item → Prop
  | nil : Shrinks [] []
  | label (line : Line) (n : String) {G G' : List Item} :
      Shrinks G G' → Shrinks (.label line n :: G) (.label line n :: G')
  | item {it : Item} {repl G G' : List Item} : (∀ l n, it ≠ .label l n) → NoLabel repl → NonNeg repl →
      sizeSum repl ≤ it.sizeD → Shrinks G G' → Shrinks (it :: G) (repl ++ G')

theorem Shrinks.refl : ∀ {G : List Item}, NonNeg G → Shrinks G G
  | [], _ => .nil
  | it :: rest, h => by
    have hrest : NonNeg rest := fun x hx => h x (List.mem_cons_of_mem _ hx)
    by_cases hl : ∃ l n, it = .label l n
    · obtain ⟨l, n, rfl⟩ := hl; exact .label l n (Shrinks.refl hrest)
    · have hnl : ∀ l n, it ≠ .label l n := fun l n e => hl ⟨l, n, e⟩
      have := Shrinks.item (repl := [it]) hnl
        (by intro x hx; simp only [List.mem_singleton] at hx; subst hx; exact hnl)
        (by intro x hx; simp only [List.mem_singleton] at hx; subst hx; exact h _ List.mem_cons_self)
        (by simp [sizeSum]) (Shrinks.refl hrest)
      simpa using this

theorem Shrinks.nonneg {G G' : List Item} (h : Shrinks G G') : NonNeg G' := by
  induction h with
  | nil => intro x hx; simp at hx
  | label line n _ ih =>
    intro x hx
    rcases List.mem_cons.mp hx with rfl | hx
    · simp [sizeD_label]
    · exact ih x hx
  | item _ _ hnn _ _ ih =>
    intro x hx
    rcases List.mem_append.mp hx with hx | hx
    · exact hnn x hx
    · exact ih x hx

theorem Shrinks.sizeSum_le {G G' : List Item} (h : Shrinks G G') : sizeSum G' ≤ sizeSum G := by
  induction h with
  | nil => exact Int.le_refl _
  | label line n _ ih => simp only [sizeSum_cons, sizeD_label]; omega
  | item _ _ _ hle _ ih => rw [sizeSum_append, sizeSum_cons]; omega

theorem Shrinks.labelNames_eq {G G' : List Item} (h : Shrinks G G') : labelNames G' = labelNames G := by
  induction h with
  | nil => rfl
  | label line n _ ih => simp [labelNames, ih]
  | item hnl hno _ _ _ ih => rw [labelNames_append_noLabel _ _ hno, labelNames_cons_of_not_label hnl, ih]

/-- the offset of a marker from the START of the list only shrinks -/
theorem Shrinks.head_off {G G' : List Item} (h : Shrinks G G') : ∀ (q q' : Int) (ℓ : String) (u : Int),
    labelPos G q ℓ = some u →
    ∃ u', labelPos G' q' ℓ = some u' ∧ 0 ≤ u' - q' ∧ u' - q' ≤ u - q := by
  induction h with
  | nil => intro q q' ℓ u hu; simp [labelPos] at hu
  | label line n _ ih =>
    intro q q' ℓ u hu
    simp only [labelPos] at hu ⊢
    by_cases hn : n = ℓ
    · simp only [hn, if_true, Option.some.injEq] at hu ⊢
      exact ⟨q', rfl, by omega, by omega⟩
    · simp only [hn, if_false] at hu ⊢
      exact ih q q' ℓ u hu
  | @item it repl G G' hnl hno hnn hle _ ih =>
    intro q q' ℓ u hu
    rw [labelPos_cons_of_not_label hnl] at hu
    obtain ⟨u', h1, h2, h3⟩ := ih (q + it.sizeD) (q' + sizeSum repl) ℓ u hu
    refine ⟨u', by rw [labelPos_append_noLabel _ _ hno]; exact h1, ?_, ?_⟩
    · have := sizeSum_nonneg hnn; omega
    · omega

/-- the distance of a marker from the END of the list only shrinks -/
theorem Shrinks.tail_off {G G' : List Item} (h : Shrinks G G') : ∀ (q q' : Int) (ℓ : String) (u : Int),
    labelPos G q ℓ = some u →
    ∃ u', labelPos G' q' ℓ = some u' ∧ 0 ≤ q' + sizeSum G' - u' ∧ q' + sizeSum G' - u' ≤ q + sizeSum G - u := by
  induction h with
  | nil => intro q q' ℓ u hu; simp [labelPos] at hu
  | @label line n G G' hs ih =>
    intro q q' ℓ u hu
    simp only [labelPos] at hu ⊢
    by_cases hn : n = ℓ
    · simp only [hn, if_true, Option.some.injEq] at hu ⊢
      subst hu
      refine ⟨q', rfl, ?_, ?_⟩
      · have := sizeSum_nonneg hs.nonneg
        simp only [sizeSum_cons, sizeD_label]; omega
      · have := hs.sizeSum_le
        simp only [sizeSum_cons, sizeD_label]; omega
    · simp only [hn, if_false] at hu ⊢
      obtain ⟨u', h1, h2, h3⟩ := ih q q' ℓ u hu
      exact ⟨u', h1, by simp only [sizeSum_cons, sizeD_label]; omega,
        by simp only [sizeSum_cons, sizeD_label]; omega⟩
  | @item it repl G G' hnl hno hnn hle _ ih =>
    intro q q' ℓ u hu
    rw [labelPos_cons_of_not_label hnl] at hu
    obtain ⟨u', h1, h2, h3⟩ := ih (q + it.sizeD) (q' + sizeSum repl) ℓ u hu
    refine ⟨u', by rw [labelPos_append_noLabel _ _ hno]; exact h1, ?_, ?_⟩
    · rw [sizeSum_append]; omega
    · rw [sizeSum_append, sizeSum_cons]; omega

/-! ### the signed distance from an item to a marker -/

/-- signed distance from the start of `y` to the marker of `ℓ` in the ghost list `A ++ y :: B`
    (laid out from 0) -/
def dist (A : List Item) (y : Item) (B : List Item) (ℓ : String) : Option Int :=
  (labelPos (A ++ y :: B) 0 ℓ).map (· - sizeSum A)

theorem dist_shrink {A A' B B' : List Item} {y y' : Item} {ℓ : String} {v : Int}
    (hA : Shrinks A A') (hB : Shrinks B B') (hy : ∀ l n, y ≠ .label l n) (hy' : ∀ l n, y' ≠ .label l n)
    (hpos : 0 < y'.sizeD) (hle : y'.sizeD ≤ y.sizeD) (hv : dist A y B ℓ = some v) :
    ∃ v', dist A' y' B' ℓ = some v' ∧ Closer v v' := by
  unfold dist at hv ⊢
  by_cases hm : ℓ ∈ labelNames A
  · rw [labelPos_append_mem _ _ _ _ hm] at hv
    rw [labelPos_append_mem _ _ _ _ (by rw [hA.labelNames_eq]; exact hm)]
    cases hu : labelPos A 0 ℓ with
    | none => simp [hu] at hv
    | some u =>
      simp only [hu, Option.map_some, Option.some.injEq] at hv
      obtain ⟨u', h1, h2, h3⟩ := hA.tail_off 0 0 ℓ u hu
      refine ⟨u' - sizeSum A', by simp [h1], ?_⟩
      unfold Closer
      constructor <;> intro _ <;> omega
  · rw [labelPos_append_not_mem _ _ _ _ hm, labelPos_cons_of_not_label hy] at hv
    rw [labelPos_append_not_mem _ _ _ _ (by rw [hA.labelNames_eq]; exact hm), labelPos_cons_of_not_label hy']
    simp only [Int.zero_add] at hv ⊢
    cases hu : labelPos B (sizeSum A + y.sizeD) ℓ with
    | none => simp [hu] at hv
    | some u =>
      simp only [hu, Option.map_some, Option.some.injEq] at hv
      obtain ⟨u', h1, h2, h3⟩ := hB.head_off _ (sizeSum A' + y'.sizeD) ℓ u hu
      refine ⟨u' - sizeSum A', by simp [h1], ?_⟩
      unfold Closer
      constructor <;> intro _ <;> omega

/-! ### every `walk` with `BodyOK` shrinks -/

theorem walk_cons_of_not_label {f : Item → Int → Dict → Except Err (List Item × Int)} {it : Item}
    (hnl : ∀ l n, it ≠ .label l n) (rest : List Item) (p : Int) (labels : Dict) :
    walk f (it :: rest) p labels = (do
      let (repl, n) ← f it p labels
      let (out, l) ← walk f rest (p + sizeSum repl) (labels.shiftAbove p n)
      pure (repl ++ out, l)) := by
  cases it <;> first | rfl | exact absurd rfl (hnl _ _)

theorem walk_shrinks {f : Item → Int → Dict → Except Err (List Item × Int)} (hf : BodyOK f)
    (G : List Item) : ∀ (p : Int) (labels : Dict) (G' : List Item) (labels' : Dict), NonNeg G →
    walk f G p labels = .ok (G', labels') → Shrinks G G' := by
  induction G with
  | nil =>
    intro p labels G' labels' _ h
    simp only [walk, Except.ok.injEq, Prod.mk.injEq] at h
    rw [← h.1]; exact .nil
  | cons it rest ih =>
    intro p labels G' labels' hnn h
    have hrest : NonNeg rest := fun x hx => hnn x (List.mem_cons_of_mem _ hx)
    by_cases hl : ∃ l n, it = .label l n
    · obtain ⟨l, n, rfl⟩ := hl
      simp only [walk, bind, Except.bind] at h
      cases hr : walk f rest p labels with
      | error e => simp [hr] at h
      | ok r =>
        obtain ⟨o, l2⟩ := r
        simp only [hr, pure, Except.pure, Except.ok.injEq, Prod.mk.injEq] at h
        rw [← h.1]; exact .label l n (ih _ _ _ _ hrest hr)
    · have hnl : ∀ l n, it ≠ .label l n := fun l n e => hl ⟨l, n, e⟩
      rw [walk_cons_of_not_label hnl] at h
      simp only [bind, Except.bind] at h
      cases hb : f it p labels with
      | error e => simp [hb] at h
      | ok rn =>
        obtain ⟨repl, n⟩ := rn
        simp only [hb] at h
        cases hr : walk f rest (p + sizeSum repl) (labels.shiftAbove p n) with
        | error e => simp [hr] at h
        | ok r =>
          obtain ⟨o, l2⟩ := r
          simp only [hr, pure, Except.pure, Except.ok.injEq, Prod.mk.injEq] at h
          rw [← h.1]
          obtain ⟨b1, b2, b3, b4, _⟩ := hf.ok it p labels repl n hnl (hnn it List.mem_cons_self) hb
          exact .item hnl b1 b2 (by omega) (ih _ _ _ _ hrest hr)

/-! ### one step of the layout invariant (the step of `walk_layout`, isolated) -/

theorem step_inv {f : Item → Int → Dict → Except Err (List Item × Int)} (hf : BodyOK f)
    {it : Item} {rest repl : List Item} {p n : Int} {labels : Dict}
    (hnl : ∀ l nm, it ≠ .label l nm) (hnn : NonNeg (it :: rest))
    (hagree : ∀ ℓ v, labelPos (it :: rest) p ℓ = some v → labels.get ℓ = some v)
    (hlow : ∀ ℓ v, ℓ ∉ labelNames (it :: rest) → labels.get ℓ = some v → v ≤ p)
    (hfb : f it p labels = .ok (repl, n)) :
    (∀ ℓ v, labelPos rest (p + sizeSum repl) ℓ = some v → (labels.shiftAbove p n).get ℓ = some v) ∧
    (∀ ℓ v, ℓ ∉ labelNames rest → (labels.shiftAbove p n).get ℓ = some v → v ≤ p + sizeSum repl) ∧
    (∀ ℓ, ℓ ∉ labelNames rest → (labels.shiftAbove p n).get ℓ = labels.get ℓ) := by
  have hnnrest : NonNeg rest := fun x hx => hnn x (List.mem_cons_of_mem _ hx)
  have hsz : 0 ≤ it.sizeD := hnn it List.mem_cons_self
  obtain ⟨b1, b2, b3, b4, b5⟩ := hf.ok it p labels repl n hnl hsz hfb
  rw [labelNames_cons_of_not_label hnl] at hlow
  have hp' : p + sizeSum repl = p + it.sizeD - n := by omega
  refine ⟨?_, ?_, ?_⟩
  · intro ℓ v hv
    rw [hp', labelPos_shift] at hv
    cases hq : labelPos rest (p + it.sizeD) ℓ with
    | none => simp [hq] at hv
    | some u =>
      simp only [hq, Option.map_some, Option.some.injEq] at hv
      have hget := hagree ℓ u (by rw [labelPos_cons_of_not_label hnl]; exact hq)
      have hge := labelPos_ge hnnrest hq
      rw [Dict.get_shiftAbove, hget]
      simp only [Option.map_some, Option.some.injEq]
      by_cases hn0 : 0 < n
      · have := b5 hn0
        have : u > p := by omega
        simp [this]; omega
      · have : n = 0 := by omega
        subst this
        split <;> omega
  · intro ℓ v hℓ hv
    rw [Dict.get_shiftAbove] at hv
    cases hg : labels.get ℓ with
    | none => simp [hg] at hv
    | some u =>
      have hu := hlow ℓ u hℓ hg
      simp only [hg, Option.map_some, Option.some.injEq] at hv
      have : ¬ u > p := by omega
      simp only [this, if_false] at hv
      have := sizeSum_nonneg b2
      omega
  · intro ℓ hℓ
    rw [Dict.get_shiftAbove]
    cases hg : labels.get ℓ with
    | none => rfl
    | some u =>
      have hu := hlow ℓ u hℓ hg
      have : ¬ u > p := by omega
      simp [this]

/-! ### a walk, read at one output item -/

theorem append_eq_append_cons {α : Type} {r o a b : List α} {x : α} (h : r ++ o = a ++ x :: b) :
    (∃ s, r = a ++ x :: s ∧ b = s ++ o) ∨ (∃ a', a = r ++ a' ∧ o = a' ++ x :: b) := by
  induction r generalizing a with
  | nil => exact Or.inr ⟨a, rfl, by simpa using h⟩
  | cons y r ih =>
    cases a with
    | nil =>
      simp only [List.cons_append, List.nil_append, List.cons.injEq] at h
      obtain ⟨rfl, rfl⟩ := h
      exact Or.inl ⟨r, rfl, rfl⟩
    | cons z a =>
      simp only [List.cons_append, List.cons.injEq] at h
      obtain ⟨rfl, h⟩ := h
      rcases ih h with ⟨s, rfl, rfl⟩ | ⟨a', rfl, rfl⟩
      · exact Or.inl ⟨s, rfl, rfl⟩
      · exact Or.inr ⟨a', rfl, rfl⟩

/-- **a walk read at one output item `x'`**: the input item `y` that produced it (`f y … = P ++ x' :: S`),
    the position `p + sizeSum A0` and the label table `Lm` the body saw — `Lm` is the layout of the
    hybrid list `A0 ++ y :: B` (transformed prefix, untransformed rest) — and how the parts before and
    after relate (`Shrinks`) -/
theorem walk_track {f : Item → Int → Dict → Except Err (List Item × Int)} (hf : BodyOK f)
    (G : List Item) : ∀ (p : Int) (labels : Dict) (G' : List Item) (labels' : Dict),
    NonNeg G → (labelNames G).Nodup →
    (∀ ℓ v, labelPos G p ℓ = some v → labels.get ℓ = some v) →
    (∀ ℓ v, ℓ ∉ labelNames G → labels.get ℓ = some v → v ≤ p) →
    walk f G p labels = .ok (G', labels') →
    ∀ (A' : List Item) (x' : Item) (B' : List Item), G' = A' ++ x' :: B' → (∀ l n, x' ≠ .label l n) →
    ∃ (A : List Item) (y : Item) (B A0 P S : List Item) (n : Int) (Lm : Dict) (B0 : List Item),
      G = A ++ y :: B ∧ (∀ l n, y ≠ .label l n) ∧
      f y (p + sizeSum A0) Lm = .ok (P ++ x' :: S, n) ∧ A' = A0 ++ P ∧ B' = S ++ B0 ∧
      Shrinks A A0 ∧ Shrinks B B0 ∧
      (∀ ℓ v, labelPos (y :: B) (p + sizeSum A0) ℓ = some v → Lm.get ℓ = some v) ∧
      (∀ ℓ v, labelPos A0 p ℓ = some v → Lm.get ℓ = some v) ∧
      (∀ ℓ, ℓ ∉ labelNames G → Lm.get ℓ = labels.get ℓ) := by
  induction G with
  | nil =>
    intro p labels G' labels' _ _ _ _ h A' x' B' hG'
    simp only [walk, Except.ok.injEq, Prod.mk.injEq] at h
    rw [← h.1] at hG'
    exact absurd hG' (by simp)
  | cons it rest ih =>
    intro p labels G' labels' hnn hnd hagree hlow h A' x' B' hG' hx'
    have hnnrest : NonNeg rest := fun x hx => hnn x (List.mem_cons_of_mem _ hx)
    by_cases hl : ∃ l n, it = .label l n
    · obtain ⟨line, nm, rfl⟩ := hl
      simp only [labelNames, List.nodup_cons] at hnd
      obtain ⟨hnotin, hndrest⟩ := hnd
      simp only [walk, bind, Except.bind] at h
      cases hr : walk f rest p labels with
      | error e => simp [hr] at h
      | ok res =>
        obtain ⟨out, l⟩ := res
        simp only [hr, pure, Except.pure, Except.ok.injEq, Prod.mk.injEq] at h
        obtain ⟨rfl, rfl⟩ := h
        -- the marker is the head of A'
        cases A' with
        | nil =>
          simp only [List.nil_append, List.cons.injEq] at hG'
          exact absurd hG'.1.symm (hx' line nm)
        | cons a A'' =>
          simp only [List.cons_append, List.cons.injEq] at hG'
          obtain ⟨rfl, hout⟩ := hG'
          have hag : ∀ ℓ v, labelPos rest p ℓ = some v → labels.get ℓ = some v := by
            intro ℓ v hv
            apply hagree
            simp only [labelPos]
            have hne : nm ≠ ℓ := by
              intro heq; subst heq
              exact hnotin ((labelPos_isSome_iff rest p nm).mp (by simp [hv]))
            simp [hne, hv]
          have hlo : ∀ ℓ v, ℓ ∉ labelNames rest → labels.get ℓ = some v → v ≤ p := by
            intro ℓ v hℓ hv
            by_cases he : ℓ = nm
            · subst he
              have := hagree ℓ p (by simp [labelPos])
              rw [this] at hv; simp only [Option.some.injEq] at hv; omega
            · exact hlow ℓ v (by simp [labelNames, he, hℓ]) hv
          obtain ⟨A, y, B, A0, P, S, n, Lm, B0, e1, e2, e3, e4, e5, e6, e7, e8, e9, e10⟩ :=
            ih p labels out l hnnrest hndrest hag hlo hr A'' x' B' hout hx'
          refine ⟨.label line nm :: A, y, B, .label line nm :: A0, P, S, n, Lm, B0, by rw [e1]; rfl, e2, ?_,
            by rw [e4]; rfl, e5, .label line nm e6, e7, ?_, ?_, ?_⟩
          · simpa [sizeSum_cons, sizeD_label] using e3
          · simpa [sizeSum_cons, sizeD_label] using e8
          · intro ℓ v hv
            simp only [labelPos] at hv
            split at hv
            · rename_i heq; subst heq
              simp only [Option.some.injEq] at hv; subst hv
              rw [e10 nm hnotin]
              exact hagree nm p (by simp [labelPos])
            · exact e9 ℓ v hv
          · intro ℓ hℓ
            simp only [labelNames, List.mem_cons, not_or] at hℓ
            exact e10 ℓ hℓ.2
    · have hnl : ∀ l n, it ≠ .label l n := fun l n e => hl ⟨l, n, e⟩
      rw [walk_cons_of_not_label hnl] at h
      simp only [bind, Except.bind] at h
      cases hfb : f it p labels with
      | error e => simp [hfb] at h
      | ok fb =>
        obtain ⟨repl, n⟩ := fb
        simp only [hfb] at h
        cases hr : walk f rest (p + sizeSum repl) (labels.shiftAbove p n) with
        | error e => simp [hr] at h
        | ok res =>
          obtain ⟨out, l⟩ := res
          simp only [hr, pure, Except.pure, Except.ok.injEq, Prod.mk.injEq] at h
          obtain ⟨rfl, rfl⟩ := h
          obtain ⟨b1, b2, b3, b4, b5⟩ := hf.ok it p labels repl n hnl (hnn it List.mem_cons_self) hfb
          rcases append_eq_append_cons hG' with ⟨S, hrepl, hB'⟩ | ⟨A'', hA', hout⟩
          · -- x' is one of the items this item turned into
            refine ⟨[], it, rest, [], A', S, n, labels, out, rfl, hnl, ?_, by simp, hB', .nil,
              walk_shrinks hf rest _ _ _ _ hnnrest hr, ?_, ?_, fun _ _ => rfl⟩
            · simpa [sizeSum, hrepl] using hfb
            · simpa [sizeSum] using hagree
            · intro ℓ v hv; simp [labelPos] at hv
          · obtain ⟨s1, s2, s3⟩ := step_inv hf hnl hnn hagree hlow hfb
            have hnd' : (labelNames rest).Nodup := by rw [labelNames_cons_of_not_label hnl] at hnd; exact hnd
            obtain ⟨A, y, B, A0, P, S, n', Lm, B0, e1, e2, e3, e4, e5, e6, e7, e8, e9, e10⟩ :=
              ih _ _ out l hnnrest hnd' s1 s2 hr A'' x' B' hout hx'
            refine ⟨it :: A, y, B, repl ++ A0, P, S, n', Lm, B0, by rw [e1]; rfl, e2, ?_,
              by rw [hA', e4, List.append_assoc], e5, .item hnl b1 b2 (by omega) e6, e7, ?_, ?_, ?_⟩
            · rw [sizeSum_append, ← Int.add_assoc]; exact e3
            · rw [sizeSum_append, ← Int.add_assoc]; exact e8
            · intro ℓ v hv
              rw [labelPos_append_noLabel _ _ b1] at hv
              exact e9 ℓ v hv
            · intro ℓ hℓ
              rw [labelNames_cons_of_not_label hnl] at hℓ
              rw [e10 ℓ hℓ, s3 ℓ hℓ]

end BB.Lemmas
