/-
  BB.Lemmas.OrderPasses — each pass of `assembleItems` is an item-by-item, order-preserving map
  (`Expands`, Lemmas/Order.lean).
-/
import BB.Lemmas.Order
import BB.Lemmas.Bodies
namespace BB.Lemmas
open BB

/-! ### resolve_constants / resolve_labels: markers are consumed, everything else is kept -/

theorem resolveConstants_expands (H : Hooks) (items : List Item) : ∀ (c : Dict) (out : List Item) (c' : Dict),
    resolveConstants H items c = .ok (out, c') → Expands items out := by
  induction items with
  | nil =>
    intro c out c' h
    simp only [resolveConstants, Except.ok.injEq, Prod.mk.injEq] at h
    rw [← h.1]; exact .nil
  | cons it rest ih =>
    intro c out c' h
    by_cases hc : ∃ line name expr, it = .constant line name expr
    · obtain ⟨line, name, expr, rfl⟩ := hc
      simp only [resolveConstants] at h
      split at h
      · split at h
        · simp at h
        · split at h
          · simp at h
          · simp only [bind, Except.bind] at h
            split at h
            · simp at h
            · exact Expands.cons (repl := []) (Img.drop rfl) (ih _ _ _ h)
      · simp at h
    · have hw : resolveConstants H (it :: rest) c = (do
          let (out, c) ← resolveConstants H rest c
          pure (it :: out, c)) := by
        cases it <;> first | rfl | exact absurd ⟨_, _, _, rfl⟩ hc
      rw [hw] at h
      simp only [bind, Except.bind] at h
      cases hr : resolveConstants H rest c with
      | error e => simp [hr] at h
      | ok r =>
        obtain ⟨o, cc⟩ := r
        simp only [hr, pure, Except.pure, Except.ok.injEq, Prod.mk.injEq] at h
        rw [← h.1]
        exact Expands.cons (repl := [it]) (Img.refl it) (ih _ _ _ hr)

theorem resolveLabelsAux_expands (items : List Item) : ∀ (p : Int) (L : Dict) (d : List String)
    (out : List Item) (L' : Dict),
    resolveLabelsAux items p L d = .ok (out, L') → Expands items out := by
  induction items with
  | nil =>
    intro p L d out L' h
    simp only [resolveLabelsAux, Except.ok.injEq, Prod.mk.injEq] at h
    rw [← h.1]; exact .nil
  | cons it rest ih =>
    intro p L d out L' h
    by_cases hc : ∃ line name, it = .label line name
    · obtain ⟨line, name, rfl⟩ := hc
      simp only [resolveLabelsAux] at h
      split at h
      · simp at h
      · exact Expands.cons (repl := []) (Img.drop rfl) (ih _ _ _ _ _ h)
    · have hw : resolveLabelsAux (it :: rest) p L d = (do
          let sz ← it.sizeE
          let (out, l) ← resolveLabelsAux rest (p + sz) L d
          pure (it :: out, l)) := by
        cases it <;> first | rfl | exact absurd ⟨_, _, rfl⟩ hc
      rw [hw] at h
      simp only [bind, Except.bind] at h
      cases hs : it.sizeE with
      | error e => simp [hs] at h
      | ok sz =>
        simp only [hs] at h
        cases hr : resolveLabelsAux rest (p + sz) L d with
        | error e => simp [hr] at h
        | ok r =>
          obtain ⟨o, cc⟩ := r
          simp only [hr, pure, Except.pure, Except.ok.injEq, Prod.mk.injEq] at h
          rw [← h.1]
          exact Expands.cons (repl := [it]) (Img.refl it) (ih _ _ _ _ _ hr)

/-! ### resolve_register_aliases, resolve_strings (List.map) -/

theorem aliases_expands (items : List Item) (constants : Dict) :
    Expands items (resolveRegisterAliases items constants) := by
  unfold resolveRegisterAliases
  apply map_expands
  intro it
  cases it with
  | instr line ins =>
    exact Img.same (it' := .instr line (ins.mapRegs (aliasReg constants))) rfl rfl
      (fun h => by simp [Item.isMarker] at h) (fun h => by simp [Item.isData] at h) (fun _ => rfl)
  | _ => exact Img.refl _

theorem strings_expands (items : List Item) : Expands items (resolveStrings items) := by
  unfold resolveStrings
  apply map_expands
  intro it
  cases it with
  | string line v =>
    refine Img.same (it' := .blob line (utf8Bytes v)) rfl rfl (fun h => by simp [Item.isMarker] at h)
      (fun _ => ⟨rfl, ?_⟩) (fun h => by simp [Item.isInstr] at h)
    simp only [Item.sizeD, Item.size?, Option.getD_some, utf8Bytes_length]
  | _ => exact Img.refl _

/-! ### the four loop bodies -/

theorem keep_img {it : Item} {repl : List Item} {n : Int} (h : keepItem it = .ok (repl, n)) : Img it repl := by
  obtain ⟨rfl, _⟩ := keepItem_ok h
  exact Img.refl it

theorem compressBody_img (H : Hooks) (constants : Dict) (it : Item) (p : Int) (L : Dict) (repl : List Item)
    (n : Int) (_ : ∀ line nm, it ≠ .label line nm) (h : compressBody H constants it p L = .ok (repl, n)) :
    Img it repl := by
  cases it with
  | instr line ins =>
    simp only [compressBody] at h
    by_cases haj : ins.isAuipcJump = true
    · rw [if_pos haj] at h; exact keep_img h
    · rw [if_neg haj] at h
      cases hm : firstMatch H (chainGet constants L) line ins p criteria with
      | error e =>
        rw [hm] at h
        split at h <;> first | (simp at h; done) | (rename_i heq; cases heq; done) | (rename_i heq _; cases heq; done)
      | ok m =>
        rw [hm] at h
        cases m with
        | none => exact keep_img h
        | some c =>
          simp only at h
          cases hci : compressedForm c ins with
          | none => simp [hci] at h
          | some ci =>
            simp only [hci, pure, Except.pure, Except.ok.injEq, Prod.mk.injEq] at h
            obtain ⟨rfl, rfl⟩ := h
            exact Img.same rfl rfl (fun h => by simp [Item.isMarker] at h)
              (fun h => by simp [Item.isData] at h) (fun _ => rfl)
  | _ => exact keep_img (by simpa [compressBody] using h)

theorem pseudoBody_img (H : Hooks) (constants : Dict) (it : Item) (p : Int) (L : Dict) (repl : List Item)
    (n : Int) (_ : ∀ line nm, it ≠ .label line nm) (h : pseudoBody H constants it p L = .ok (repl, n)) :
    Img it repl := by
  cases it with
  | pseudo line name args =>
    simp only [pseudoBody, bind, Except.bind] at h
    cases hres : expandPseudo H (chainGet constants L) line name args p with
    | error e => simp [hres] at h
    | ok res =>
      obtain ⟨instrs, short⟩ := res
      simp only [hres, pure, Except.pure, Except.ok.injEq, Prod.mk.injEq] at h
      obtain ⟨rfl, rfl⟩ := h
      refine Img.spec ?_ rfl rfl rfl ?_
      · intro x hx
        simp only [List.mem_map] at hx
        obtain ⟨i, _, rfl⟩ := hx
        rfl
      · unfold expandPseudo at hres
        cases hk : pseudoKind name with
        | none => simp [hk] at hres
        | some k =>
          simp only [hk] at hres
          obtain ⟨_, hshape⟩ := expandKind_shape hres
          have hlen : instrs.length = 1 ∨ instrs.length = 2 := by
            rcases hshape with ⟨_, _, hl⟩ | ⟨_, _, hl⟩ | ⟨_, _, hl⟩ <;> simp [hl]
          simp only [SpecImg]
          rcases hlen with hl | hl
          · match instrs, hl with
            | [a], _ => exact Or.inl ⟨_, rfl, Or.inl rfl⟩
          · match instrs, hl with
            | [a, b], _ => exact Or.inr ⟨_, _, rfl, Or.inl rfl, Or.inl rfl⟩
  | _ => exact keep_img (by simpa [pseudoBody] using h)

/-- a negative alignment never pads: `alignPadding` is 0 (at a multiple) or negative (refused) -/
theorem alignPadding_neg {a p pad : Int} (ha : a < 0) (h : alignPadding a p = some pad) : pad ≤ 0 := by
  have hm : pyMod p a = -((-p).fmod (-a)) := by
    have := Int.neg_fmod_neg (-p) (-a)
    simp only [Int.neg_neg] at this
    unfold pyMod; exact this
  have h1 : 0 ≤ (-p).fmod (-a) := Int.fmod_nonneg_of_pos _ (by omega)
  have h2 : (-p).fmod (-a) < -a := Int.fmod_lt_of_pos _ (by omega)
  unfold alignPadding at h
  rw [if_neg (by omega), hm] at h
  simp only at h
  split at h
  · simp only [Option.some.injEq] at h; omega
  · simp only [Option.some.injEq] at h; omega

theorem alignBody_img (it : Item) (p : Int) (L : Dict) (repl : List Item)
    (n : Int) (_ : ∀ line nm, it ≠ .label line nm) (h : alignBody it p L = .ok (repl, n)) :
    Img it repl := by
  cases it with
  | align line alignment =>
    simp only [alignBody] at h
    split at h
    · simp at h
    · rename_i padding hpad
      split at h
      · simp only [pure, Except.pure, Except.ok.injEq, Prod.mk.injEq] at h
        rw [← h.1]
        exact Img.spec (fun x hx => by simp at hx) rfl rfl rfl (Or.inl rfl)
      · rename_i hne
        split at h
        · simp at h
        · rename_i hnn
          simp only [pure, Except.pure, Except.ok.injEq, Prod.mk.injEq] at h
          rw [← h.1]
          have hpos : 0 < alignment := by
            rcases Int.lt_trichotomy alignment 0 with hlt | heq | hgt
            · have := alignPadding_neg hlt hpad; omega
            · subst heq; simp [alignPadding] at hpad
            · exact hgt
          obtain ⟨r1, r2, _⟩ := alignPadding_range hpos hpad
          refine Img.spec ?_ rfl rfl rfl (Or.inr ⟨padding.toNat, by omega, by omega, rfl⟩)
          intro x hx; simp only [List.mem_singleton] at hx; subst hx; rfl
  | _ => exact keep_img (by simpa [alignBody] using h)

theorem immBody_img (H : Hooks) (constants : Dict) (it : Item) (p : Int) (L : Dict) (repl : List Item)
    (n : Int) (_ : ∀ line nm, it ≠ .label line nm) (h : immBody H constants it p L = .ok (repl, n)) :
    Img it repl := by
  cases it with
  | instr line ins =>
    simp only [immBody] at h
    cases himm : ins.imm? with
    | none => simp only [himm] at h; exact keep_img h
    | some imm =>
      simp only [himm, bind, Except.bind] at h
      split at h
      · simp at h
      · simp only [pure, Except.pure, Except.ok.injEq, Prod.mk.injEq] at h
        rw [← h.1]
        exact Img.same rfl rfl (fun h => by simp [Item.isMarker] at h)
          (fun h => by simp [Item.isData] at h) (fun _ => rfl)
  | pack line fmt imm =>
    simp only [immBody, bind, Except.bind] at h
    split at h
    · simp at h
    · split at h
      · simp at h
      · simp only [pure, Except.pure, Except.ok.injEq, Prod.mk.injEq] at h
        rw [← h.1]
        exact Img.same rfl rfl (fun h => by simp [Item.isMarker] at h)
          (fun _ => ⟨rfl, by simp [Item.sizeD, Item.size?]⟩) (fun h => by simp [Item.isInstr] at h)
  | shorthandPack line name imm =>
    simp only [immBody, bind, Except.bind] at h
    split at h
    · simp at h
    · split at h
      · simp at h
      · simp only [pure, Except.pure, Except.ok.injEq, Prod.mk.injEq] at h
        rw [← h.1]
        exact Img.same rfl rfl (fun h => by simp [Item.isMarker] at h)
          (fun _ => ⟨rfl, by simp [Item.sizeD, Item.size?]⟩) (fun h => by simp [Item.isInstr] at h)
  | _ => exact keep_img (by simpa [immBody] using h)

/-! ### the one-to-one steps (List.mapM) -/

/-- a size-keeping step whose result carries the line and class of its argument -/
theorem step_img {g : Item → Except Err Item} (hg : StepOK g) {it it' : Item} (h : g it = .ok it')
    (hl : it'.line = it.line)
    (hs : Item.isSpecial it = false)
    (hm : Item.isMarker it = true → Item.isMarker it' = true)
    (hd : Item.isData it = true → Item.isData it' = true)
    (hi : Item.isInstr it = true → Item.isInstr it' = true ∨ Item.isData it' = true) : Img it [it'] := by
  refine ⟨?_, ?_, ?_, ?_, ?_⟩
  · intro x hx; simp only [List.mem_singleton] at hx; subst hx; exact hl
  · intro hh x hx; simp only [List.mem_singleton] at hx; subst hx; exact hm hh
  · intro hh
    have hnl : ∀ l n, it ≠ .label l n := by
      intro l n e; subst e; simp [Item.isData] at hh
    exact ⟨it', rfl, hd hh, (hg.keep it it' hnl h).2⟩
  · intro hh
    have hnl : ∀ l n, it ≠ .label l n := by
      intro l n e; subst e; simp [Item.isInstr] at hh
    rcases hi hh with h1 | h1
    · exact ⟨it', rfl, Or.inl h1⟩
    · refine ⟨it', rfl, Or.inr ⟨h1, ?_⟩⟩
      have hs := (hg.keep it it' hnl h).2
      have : it.sizeD = 2 ∨ it.sizeD = 4 := by
        cases it with
        | instr line ins =>
          simp only [Item.sizeD, Item.size?, Option.getD_some, Instr.size]
          split <;> simp
        | _ => simp [Item.isInstr] at hh
      rw [hs]; exact this
  · intro hh; rw [hs] at hh; cases hh

theorem instrStep_img (it it' : Item) (h : instrStep it = .ok it') : Img it [it'] := by
  cases it with
  | instr line ins =>
    have h0 := h
    simp only [instrStep, bind, Except.bind] at h
    cases he : encodeInstr line ins with
    | error e => simp [he] at h
    | ok bs =>
      simp only [he, pure, Except.pure, Except.ok.injEq] at h
      subst h
      exact step_img instrStep_ok h0 rfl rfl (fun h => by simp [Item.isMarker] at h)
        (fun h => by simp [Item.isData] at h) (fun _ => Or.inr rfl)
  | pseudo line name args => simp [instrStep] at h
  | _ =>
    simp only [instrStep, pure, Except.pure, Except.ok.injEq] at h
    subst h; exact Img.refl _

theorem seqStep_img (it it' : Item) (h : seqStep it = .ok it') : Img it [it'] := by
  cases it with
  | sequence line name values =>
    have h0 := h
    simp only [seqStep] at h
    cases hsz : sequenceElemSize name with
    | none => simp [hsz] at h
    | some n =>
      simp only [hsz, bind, Except.bind] at h
      cases h1 : seqBytes line n values with
      | error e => simp [h1] at h
      | ok vs =>
        simp only [h1] at h
        cases h2 : packSeq line n vs with
        | error e => simp [h2] at h
        | ok bs =>
          simp only [h2, pure, Except.pure, Except.ok.injEq] at h
          subst h
          exact step_img seqStep_ok h0 rfl rfl (fun h => by simp [Item.isMarker] at h)
            (fun _ => rfl) (fun h => by simp [Item.isInstr] at h)
  | _ =>
    simp only [seqStep, pure, Except.pure, Except.ok.injEq] at h
    subst h; exact Img.refl _

theorem shorthandStep_img (it it' : Item) (h : shorthandStep it = .ok it') : Img it [it'] := by
  cases it with
  | shorthandPack line name imm =>
    have h0 := h
    simp only [shorthandStep] at h
    split at h
    · split at h
      · simp at h
      · simp only [pure, Except.pure, Except.ok.injEq] at h
        subst h
        exact step_img shorthandStep_ok h0 rfl rfl (fun h => by simp [Item.isMarker] at h)
          (fun _ => rfl) (fun h => by simp [Item.isInstr] at h)
    · simp at h
  | _ =>
    simp only [shorthandStep, pure, Except.pure, Except.ok.injEq] at h
    subst h; exact Img.refl _

theorem packStep_img (it it' : Item) (h : packStep it = .ok it') : Img it [it'] := by
  cases it with
  | pack line fmt imm =>
    have h0 := h
    simp only [packStep] at h
    split at h
    · simp only [bind, Except.bind] at h
      split at h
      · simp at h
      · split at h
        · simp at h
        · simp only [pure, Except.pure, Except.ok.injEq] at h
          subst h
          exact step_img packStep_ok h0 rfl rfl (fun h => by simp [Item.isMarker] at h)
            (fun _ => rfl) (fun h => by simp [Item.isInstr] at h)
    · simp at h
  | _ =>
    simp only [packStep, pure, Except.pure, Except.ok.injEq] at h
    subst h; exact Img.refl _

theorem includeBytesStep_img (H : Hooks) (it it' : Item) (h : includeBytesStep H it = .ok it') : Img it [it'] := by
  cases it with
  | includeBytes line path fsize =>
    have h0 := h
    simp only [includeBytesStep] at h
    split at h
    · simp at h
    · split at h
      · simp at h
      · simp only [pure, Except.pure, Except.ok.injEq] at h
        subst h
        exact step_img (includeBytesStep_ok H) h0 rfl rfl (fun h => by simp [Item.isMarker] at h)
          (fun _ => rfl) (fun h => by simp [Item.isInstr] at h)
  | _ =>
    simp only [includeBytesStep, pure, Except.pure, Except.ok.injEq] at h
    subst h; exact Img.refl _

end BB.Lemmas
