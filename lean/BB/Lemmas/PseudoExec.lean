/-
  BB.Lemmas.PseudoExec — from an item of the final list that stands for an instruction of a
  pseudo-instruction's expansion (`FinalOf`: the instruction itself, or its compressed form) to what the
  output bytes at its offset DO: `ExecAt r off n f` — the `n` bytes at `off` are one instruction
  (32-bit word, or legal RVC halfword) whose execution is `f`.
-/
import BB.Lemmas.PseudoTrace
set_option linter.unusedSimpArgs false
set_option linter.unusedVariables false
namespace BB.Lemmas
open BB BB.Spec
open BB.Props.C03 (Land Finish)

/-- the `n` bytes at byte offset `off` of the output are one instruction whose execution is `f` -/
def ExecAt (r : AsmResult) (off : Int) (n : Nat) (f : St → St) : Prop :=
  (n = 4 ∧ ∃ w i, sliceAt r.bytes off 4 = leBytes 4 w ∧ decode32 w = some i ∧ ∀ s, exec i 4 s = f s) ∨
  (n = 2 ∧ ∃ w ci, sliceAt r.bytes off 2 = leBytes 2 w ∧ decode16 w = some ci ∧ ci.legal = true ∧ ∀ s, execC ci s = f s)

/-- register operands of a resolved 32-bit instruction that denotes something are registers -/
theorem regs_valid_of_denote {rins : Instr} {i : Instr32} (hwk : rins.wellKinded = true)
    (hna : ∀ n rd rs1 rs2 aq rl, rins ≠ .a n rd rs1 rs2 aq rl) (hnal : ∀ n rd rs1 aq rl, rins ≠ .al n rd rs1 aq rl)
    (h : denote32I rins = some i) : ∀ f x, rins.fld f = some x → (lookupRegister x).isSome = true := by
  obtain ⟨k, hk, hs, _⟩ := wellKinded_row hwk
  have hkm : kindMatches k rins = true := by
    unfold Instr.wellKinded at hwk; rw [hk] at hwk; exact hwk
  unfold denote32I at h
  rw [hk] at h
  simp only at h
  cases ha : rins.args with
  | none => simp [ha] at h
  | some args =>
  simp only [ha] at h
  cases hd : BB.Props.C01.denote32 k args with
  | none => simp [hd] at h
  | some ops =>
  intro f x hf
  apply denoteReg_isSome
  cases rins with
  | r n rd rs1 rs2 =>
    cases k <;> simp only [kindMatches, Bool.false_eq_true] at hkm
    simp only [Instr.args, Option.some.injEq] at ha
    subst ha
    simp only [BB.Props.C01.denote32, bind, Option.bind, pure] at hd
    cases h1 : BB.Props.C01.denoteReg rd <;> cases h2 : BB.Props.C01.denoteReg rs1 <;>
      cases h3 : BB.Props.C01.denoteReg rs2 <;> simp [h1, h2, h3] at hd
    cases f <;> simp only [Instr.fld, Option.some.injEq] at hf <;> subst hf <;> simp [h1, h2, h3]
  | i n rd rs1 imm aj =>
    cases imm <;> simp only [Instr.args, Option.some.injEq, reduceCtorEq] at ha
    subst ha
    cases k <;> simp only [kindMatches, Bool.false_eq_true] at hkm
    all_goals (
      simp only [BB.Props.C01.denote32, bind, Option.bind, pure] at hd
      cases h1 : BB.Props.C01.denoteReg rd <;> cases h2 : BB.Props.C01.denoteReg rs1 <;> simp [h1, h2] at hd
      cases f <;> simp only [Instr.fld, Option.some.injEq, reduceCtorEq] at hf <;> subst hf <;> simp [h1, h2])
  | s n rs1 rs2 imm =>
    cases imm <;> simp only [Instr.args, Option.some.injEq, reduceCtorEq] at ha
    subst ha
    cases k <;> simp only [kindMatches, Bool.false_eq_true] at hkm
    simp only [BB.Props.C01.denote32, bind, Option.bind, pure] at hd
    cases h1 : BB.Props.C01.denoteReg rs1 <;> cases h2 : BB.Props.C01.denoteReg rs2 <;> simp [h1, h2] at hd
    cases f <;> simp only [Instr.fld, Option.some.injEq, reduceCtorEq] at hf <;> subst hf <;> simp [h1, h2]
  | b n rs1 rs2 imm =>
    cases imm <;> simp only [Instr.args, Option.some.injEq, reduceCtorEq] at ha
    subst ha
    cases k <;> simp only [kindMatches, Bool.false_eq_true] at hkm
    simp only [BB.Props.C01.denote32, bind, Option.bind, pure] at hd
    cases h1 : BB.Props.C01.denoteReg rs1 <;> cases h2 : BB.Props.C01.denoteReg rs2 <;> simp [h1, h2] at hd
    cases f <;> simp only [Instr.fld, Option.some.injEq, reduceCtorEq] at hf <;> subst hf <;> simp [h1, h2]
  | u n rd imm =>
    cases imm <;> simp only [Instr.args, Option.some.injEq, reduceCtorEq] at ha
    subst ha
    cases k <;> simp only [kindMatches, Bool.false_eq_true] at hkm
    simp only [BB.Props.C01.denote32, bind, Option.bind, pure] at hd
    cases h1 : BB.Props.C01.denoteReg rd <;> simp [h1] at hd
    cases f <;> simp only [Instr.fld, Option.some.injEq, reduceCtorEq] at hf <;> subst hf <;> simp [h1]
  | j n rd imm =>
    cases imm <;> simp only [Instr.args, Option.some.injEq, reduceCtorEq] at ha
    subst ha
    cases k <;> simp only [kindMatches, Bool.false_eq_true] at hkm
    simp only [BB.Props.C01.denote32, bind, Option.bind, pure] at hd
    cases h1 : BB.Props.C01.denoteReg rd <;> simp [h1] at hd
    cases f <;> simp only [Instr.fld, Option.some.injEq, reduceCtorEq] at hf <;> subst hf <;> simp [h1]
  | ie n => cases f <;> simp [Instr.fld] at hf
  | fence n a b => cases f <;> simp [Instr.fld] at hf
  | a n rd rs1 rs2 aq rl => exact absurd rfl (hna _ _ _ _ _ _)
  | al n rd rs1 aq rl => exact absurd rfl (hnal _ _ _ _ _)
  | _ => cases k <;> simp [kindMatches] at hkm

/-- every register operand of an instruction a compression rule other than `c.swsp` matched is a
    register (its predicates looked each of them up) -/
theorem decided_regs {H : Hooks} {constants : Dict} {line : Line} {cf ins : Instr} {c : String} {preds : List Pred}
    {p : Int} {L : Dict} (d : DecidedAt H constants line cf ins c preds p L) (hc : c ≠ "c.swsp") :
    ∀ f x, ins.fld f = some x → (lookupRegister x).isSome = true := by
  obtain ⟨_, _, hmem, hall, hcf⟩ := d
  have hp := (allPreds_true_iff H _ line ins p preds).mp hall
  simp only [criteria, List.mem_cons, Prod.mk.injEq, List.mem_nil_iff, or_false] at hmem
  rcases hmem with ⟨rfl, rfl⟩ | ⟨rfl, rfl⟩ | ⟨rfl, rfl⟩ | ⟨rfl, rfl⟩ | ⟨rfl, rfl⟩ | ⟨rfl, rfl⟩ | ⟨rfl, rfl⟩ |
    ⟨rfl, rfl⟩ | ⟨rfl, rfl⟩ | ⟨rfl, rfl⟩ | ⟨rfl, rfl⟩ | ⟨rfl, rfl⟩ | ⟨rfl, rfl⟩ | ⟨rfl, rfl⟩ | ⟨rfl, rfl⟩ |
    ⟨rfl, rfl⟩ | ⟨rfl, rfl⟩ | ⟨rfl, rfl⟩ | ⟨rfl, rfl⟩ | ⟨rfl, rfl⟩ | ⟨rfl, rfl⟩ | ⟨rfl, rfl⟩ | ⟨rfl, rfl⟩ |
    ⟨rfl, rfl⟩ | ⟨rfl, rfl⟩ | ⟨rfl, rfl⟩ | ⟨rfl, rfl⟩ | ⟨rfl, rfl⟩ | ⟨rfl, rfl⟩
  all_goals (first | (exact absurd rfl hc) | skip)
  all_goals (cases ins <;> simp [compressedForm] at hcf)
  all_goals (
    simp only [List.mem_cons, List.mem_nil_iff, or_false, forall_eq_or_imp, forall_eq, Pred.holds, regNum, Instr.fld,
      Option.bind_some] at hp
    intro f x hf
    cases f <;> simp only [Instr.fld, Option.some.injEq, reduceCtorEq] at hf <;> subst hf)
  all_goals (first
    | (obtain ⟨_, ⟨r, hr, _⟩, _⟩ := hp; rw [hr]; rfl)
    | (obtain ⟨_, _, ⟨r, hr, _⟩, _⟩ := hp; rw [hr]; rfl)
    | (obtain ⟨_, _, _, ⟨r, hr, _⟩, _⟩ := hp; rw [hr]; rfl)
    | (obtain ⟨_, _, _, _, ⟨r, hr, _⟩, _⟩ := hp; rw [hr]; rfl)
    | (obtain ⟨_, ⟨r, hr, _⟩⟩ := hp; rw [hr]; rfl)
    | (obtain ⟨_, _, ⟨r, hr, _⟩⟩ := hp; rw [hr]; rfl)
    | (obtain ⟨_, _, _, ⟨r, hr, _⟩⟩ := hp; rw [hr]; rfl)
    | (obtain ⟨_, _, _, _, ⟨r, hr, _⟩⟩ := hp; rw [hr]; rfl)
    | (obtain ⟨_, _, _, _, _, ⟨r, hr, _⟩⟩ := hp; rw [hr]; rfl))

theorem resolveWith_fld {ev : Imm → Option Int} {ins rins : Instr} (h : resolveWith ev ins = some rins) :
    rins.wellKinded = ins.wellKinded ∧ ∀ f, rins.fld f = ins.fld f := by
  unfold resolveWith at h
  cases hi : ins.imm? with
  | none => simp only [hi, Option.some.injEq] at h; subst h; exact ⟨rfl, fun _ => rfl⟩
  | some imm =>
    simp only [hi, Option.map_eq_some_iff] at h
    obtain ⟨v, _, rfl⟩ := h
    exact ⟨setImm_wellKinded ins _, fun f => setImm_fld ins _ f⟩

theorem resolveWith_not_atomic {ev : Imm → Option Int} {ins rins : Instr} (h : resolveWith ev ins = some rins)
    (hna : ∀ n rd rs1 rs2 aq rl, ins ≠ .a n rd rs1 rs2 aq rl) (hnal : ∀ n rd rs1 aq rl, ins ≠ .al n rd rs1 aq rl) :
    (∀ n rd rs1 rs2 aq rl, rins ≠ .a n rd rs1 rs2 aq rl) ∧ (∀ n rd rs1 aq rl, rins ≠ .al n rd rs1 aq rl) := by
  unfold resolveWith at h
  cases hi : ins.imm? with
  | none => simp only [hi, Option.some.injEq] at h; subst h; exact ⟨hna, hnal⟩
  | some imm =>
    simp only [hi, Option.map_eq_some_iff] at h
    obtain ⟨v, _, rfl⟩ := h
    cases ins <;> simp [Instr.imm?] at hi <;> exact ⟨(fun _ _ _ _ _ _ e => by cases e), (fun _ _ _ _ _ e => by cases e)⟩

/-- **the instruction at byte offset `off`, DECODED** (stronger than `ExecAt`, which only knows the effect —
    and `Spec.exec` cannot tell ebreak / ecall / fence / writes to x0 apart).  `n = 4`: the four bytes are a
    word that decodes to exactly `i32`.  `n = 2`: the two bytes are the halfword of a legal RVC instruction
    `ci` that executes like `i32`, and `ci` is what the compression rule `c` (one of `criteria`, all of whose
    predicates hold of the 32-bit original `i'` at the FINAL tables and this offset) makes of `i'`:
    `compressedForm c i' = some cf`, `cf` resolves to `rcf`, `rcf` denotes `ci`. -/
def DecodedAt (H : Hooks) (r : AsmResult) (line : Line) (i' : Instr) (off : Int) (n : Nat) (i32 : Instr32) : Prop :=
  (n = 4 ∧ ∃ w, sliceAt r.bytes off 4 = leBytes 4 w ∧ decode32 w = some i32) ∨
  (n = 2 ∧ ∃ (w : Nat) (ci : CInstr) (c : String) (preds : List Pred) (cf rcf : Instr),
    sliceAt r.bytes off 2 = leBytes 2 w ∧ decode16 w = some ci ∧ ci.legal = true ∧ (∀ s, execC ci s = exec i32 2 s) ∧
    (c, preds) ∈ criteria ∧ (∀ pr ∈ preds, pr.holds i' (evalAt H (chainGet r.constants r.labels) line off)) ∧
    compressedForm c i' = some cf ∧ resolveWith (evalAt H (chainGet r.constants r.labels) line off) cf = some rcf ∧
    denote16I rcf = some ci)

theorem DecodedAt.execAt {H : Hooks} {r : AsmResult} {line : Line} {i' : Instr} {off : Int} {n : Nat} {i32 : Instr32}
    (h : DecodedAt H r line i' off n i32) : ExecAt r off n (exec i32 n) := by
  rcases h with ⟨rfl, w, h1, h2⟩ | ⟨rfl, w, ci, _, _, _, _, h1, h2, h3, h4, _⟩
  · exact Or.inl ⟨rfl, w, i32, h1, h2, fun _ => rfl⟩
  · exact Or.inr ⟨rfl, w, ci, h1, h2, h3, h4⟩

/-- an instruction of an expansion with a label-free immediate, as it stands in the output: DECODED -/
theorem final_decoded_free {H : Hooks} {r : AsmResult} {line : Line} {i' rins : Instr} {x : Item} {q : Int} {d : List Nat}
    {i32 : Instr32} (hlit : ∀ line p env, LitOK (evalAt H env line p))
    {compress : Bool} (hf : FinalOf H r.constants compress line i' x) (hpl : PlacedAt H r q x d)
    (hwk : i'.wellKinded = true) (hna : ∀ n rd rs1 rs2 aq rl, i' ≠ .a n rd rs1 rs2 aq rl)
    (hnal : ∀ n rd rs1 aq rl, i' ≠ .al n rd rs1 aq rl) (hns : ∀ n a b im, i' ≠ .s n a b im)
    (haj : i'.isAuipcJump = false)
    (hfree : ∀ imm, i'.imm? = some imm → ImmLabelFree H r.constants imm)
    (hres : resolveWith (evalAt H (chainGet r.constants r.labels) line q) i' = some rins)
    (hden : (∀ f x, i'.fld f = some x → (lookupRegister x).isSome = true) → denote32I rins = some i32) :
    (∀ f x, i'.fld f = some x → (lookupRegister x).isSome = true) ∧
    ∃ n : Nat, (n = 4 ∨ n = 2) ∧ x.sizeD = (n : Int) ∧ DecodedAt H r line i' q n i32 := by
  obtain ⟨k, hk, hs, hnc⟩ := wellKinded_row hwk
  rcases hf with rfl | ⟨_, cf, c, preds, p, L, rfl, dd⟩
  · -- the 32-bit instruction itself
    obtain ⟨rins', w, i, hres', _, hdw, hdec, hi⟩ := placed_read32 hk hs hnc hpl
    simp only [ajPos, haj, Bool.false_eq_true, if_false] at hres'
    rw [hres] at hres'
    cases hres'
    obtain ⟨hwk', hfld⟩ := resolveWith_fld hres
    obtain ⟨ha', hal'⟩ := resolveWith_not_atomic hres hna hnal
    have hv : ∀ f x, i'.fld f = some x → (lookupRegister x).isSome = true := by
      intro f x hx
      exact regs_valid_of_denote (by rw [hwk']; exact hwk) ha' hal' hi f x (by rw [hfld]; exact hx)
    rw [hden hv] at hi
    cases hi
    refine ⟨hv, 4, Or.inl rfl, by rw [instr_sizeD, hnc]; rfl, Or.inl ⟨rfl, w, ?_, hdec⟩⟩
    obtain ⟨_, _, _, _, hlen, hsl⟩ := hpl
    rw [hdw, leBytes_length] at hsl
    rw [hsl]
  · -- its compressed form
    have hcne : c ≠ "c.swsp" := by
      intro e; subst e
      have := dd.2.2.2.2
      cases i' <;> simp [compressedForm] at this
      exact absurd rfl (hns _ _ _ _)
    have hv := decided_regs dd hcne
    have hd32 := hden hv
    obtain ⟨_, _, hmem, hall, hcf⟩ := dd
    have hp0 := (allPreds_true_iff H _ line i' p preds).mp hall
    have hp := holds_labelfree hfree L r.labels line p q hp0
    obtain ⟨rcf, ci, h0, hd16, hlegal, hexec⟩ := BB.Props.C04.rule_sound hmem (hlit _ _ _) hp hcf hres hd32
    obtain ⟨w1, hw1, hdec⟩ := placed_read16 (compressedForm_aj hcf) (compressedForm_sizes hcf).2 h0 hd16 hpl
    refine ⟨hv, 2, Or.inr rfl, by rw [instr_sizeD, (compressedForm_sizes hcf).2]; rfl,
      Or.inr ⟨rfl, w1, ci, c, preds, cf, rcf, ?_, hdec, hlegal, hexec, hmem, hp, hcf, h0, hd16⟩⟩
    obtain ⟨_, _, _, _, hlen, hsl⟩ := hpl
    rw [hw1, leBytes_length] at hsl
    rw [hsl]

/-- an instruction of an expansion with a label-free immediate, as it stands in the output: its effect -/
theorem final_exec_free {H : Hooks} {r : AsmResult} {line : Line} {i' rins : Instr} {x : Item} {q : Int} {d : List Nat}
    {i32 : Instr32} (hlit : ∀ line p env, LitOK (evalAt H env line p))
    {compress : Bool} (hf : FinalOf H r.constants compress line i' x) (hpl : PlacedAt H r q x d)
    (hwk : i'.wellKinded = true) (hna : ∀ n rd rs1 rs2 aq rl, i' ≠ .a n rd rs1 rs2 aq rl)
    (hnal : ∀ n rd rs1 aq rl, i' ≠ .al n rd rs1 aq rl) (hns : ∀ n a b im, i' ≠ .s n a b im)
    (haj : i'.isAuipcJump = false)
    (hfree : ∀ imm, i'.imm? = some imm → ImmLabelFree H r.constants imm)
    (hres : resolveWith (evalAt H (chainGet r.constants r.labels) line q) i' = some rins)
    (hden : (∀ f x, i'.fld f = some x → (lookupRegister x).isSome = true) → denote32I rins = some i32) :
    (∀ f x, i'.fld f = some x → (lookupRegister x).isSome = true) ∧
    ∃ n : Nat, (n = 4 ∨ n = 2) ∧ x.sizeD = (n : Int) ∧ ExecAt r q n (exec i32 n) := by
  obtain ⟨hv, n, hn, hsz, hd⟩ := final_decoded_free hlit hf hpl hwk hna hnal hns haj hfree hres hden
  exact ⟨hv, n, hn, hsz, hd.execAt⟩

end BB.Lemmas
