/-
  BB.Lemmas.CompressThread — threading a compression decision (`ItemStep`, Props/C04) through the
  passes that follow it: the pseudo-instruction pass and resolve_aligns keep instruction items, the
  second resolve_register_aliases is the identity on what the first compression pass produced
  (`aliasReg` is idempotent and a compressed form only carries registers of its original).
-/
import BB.Lemmas.CompressLeft
set_option linter.unusedSimpArgs false
set_option linter.unusedVariables false
set_option linter.unusedTactic false
set_option linter.unreachableTactic false
namespace BB.Lemmas
open BB BB.Spec
open BB.Props.C04 (Forall2 ItemStep)

theorem forall2_mem {α β : Type} {R : α → β → Prop} : ∀ {l : List α} {l' : List β}, Forall2 R l l' →
    ∀ b ∈ l', ∃ a ∈ l, R a b
  | [], [], _, b, hb => by simp at hb
  | [], _ :: _, h, _, _ => by simp [Forall2] at h
  | _ :: _, [], h, _, _ => by simp [Forall2] at h
  | a :: as, b' :: bs, h, b, hb => by
    simp only [Forall2] at h
    rcases List.mem_cons.mp hb with rfl | hb
    · exact ⟨a, List.mem_cons_self, h.1⟩
    · obtain ⟨x, hx, hr⟩ := forall2_mem h.2 b hb
      exact ⟨x, List.mem_cons_of_mem _ hx, hr⟩

/-- a replacement form is never marked as the jalr of an auipc pair -/
theorem compressedForm_not_aj {c : String} {ins cf : Instr} (h : compressedForm c ins = some cf) :
    cf.isAuipcJump = false := by
  unfold compressedForm at h
  split at h
  all_goals (try (simp at h; done))
  all_goals (repeat' split at h)
  all_goals (first | (simp at h; done) | (simp only [Option.some.injEq] at h; subst h; rfl))

theorem aliasReg_idem (constants : Dict) (x : RegOp) :
    aliasReg constants (aliasReg constants x) = aliasReg constants x := by
  cases x with
  | int i => rfl
  | str s =>
    simp only [aliasReg]
    cases hg : constants.get s with
    | none => simp only [aliasReg, hg]
    | some v => rfl

/-- the compressed form of an already aliased instruction is itself already aliased -/
theorem compressedForm_aliased {constants : Dict} {c : String} {ins0 cf : Instr}
    (h : compressedForm c (ins0.mapRegs (aliasReg constants)) = some cf) :
    cf.mapRegs (aliasReg constants) = cf := by
  cases ins0 <;> simp only [Instr.mapRegs, compressedForm] at h
  all_goals (try (simp at h; done))
  all_goals (repeat' split at h)
  all_goals (first
    | (simp at h; done)
    | (simp only [Option.some.injEq] at h; subst h; simp only [Instr.mapRegs, aliasReg_idem]))

/-- instruction items of an aliased list -/
theorem mem_aliases {G : List Item} {constants : Dict} {line : Line} {x : Instr}
    (h : Item.instr line x ∈ resolveRegisterAliases G constants) :
    ∃ x0, Item.instr line x0 ∈ G ∧ x = x0.mapRegs (aliasReg constants) := by
  unfold resolveRegisterAliases at h
  obtain ⟨it, hit, he⟩ := List.mem_map.mp h
  cases it with
  | instr l0 i0 =>
    simp only [Item.instr.injEq] at he
    obtain ⟨rfl, rfl⟩ := he
    exact ⟨i0, hit, rfl⟩
  | _ => simp at he

/-- the pseudo-instruction pass keeps instruction items and only adds uncompressed ones: a COMPRESSED
    instruction of its output is an instruction of its input -/
theorem pseudo_pass_compressed (H : Hooks) (constants : Dict) (items : List Item) :
    ∀ (p : Int) (labels : Dict) (out : List Item) (labels' : Dict),
    walk (pseudoBody H constants) items p labels = .ok (out, labels') →
    ∀ line x, Item.instr line x ∈ out → x.isCompressed = true → Item.instr line x ∈ items := by
  induction items with
  | nil =>
    intro p labels out labels' h line x hmem
    simp only [walk, Except.ok.injEq, Prod.mk.injEq] at h
    rw [← h.1] at hmem; simp at hmem
  | cons it rest ih =>
    intro p labels out labels' h line x hmem hx
    by_cases hlab : ∃ l nm, it = .label l nm
    · obtain ⟨l, nm, rfl⟩ := hlab
      simp only [walk, bind, Except.bind] at h
      cases hr : walk (pseudoBody H constants) rest p labels with
      | error e => simp [hr] at h
      | ok r =>
        obtain ⟨o, l2⟩ := r
        simp only [hr, pure, Except.pure, Except.ok.injEq, Prod.mk.injEq] at h
        rw [← h.1] at hmem
        simp only [List.mem_cons, reduceCtorEq, false_or] at hmem
        exact List.mem_cons_of_mem _ (ih p labels o l2 hr line x hmem hx)
    · have hnl : ∀ l nm, it ≠ .label l nm := fun l nm e => hlab ⟨l, nm, e⟩
      have hw : walk (pseudoBody H constants) (it :: rest) p labels = (do
          let (repl, n) ← pseudoBody H constants it p labels
          let (o, l) ← walk (pseudoBody H constants) rest (p + sizeSum repl) (labels.shiftAbove p n)
          pure (repl ++ o, l)) := by
        cases it <;> first | rfl | exact absurd rfl (hnl _ _)
      rw [hw] at h
      simp only [bind, Except.bind] at h
      cases hb : pseudoBody H constants it p labels with
      | error e => simp [hb] at h
      | ok rn =>
        obtain ⟨repl, n⟩ := rn
        simp only [hb] at h
        cases hr : walk (pseudoBody H constants) rest (p + sizeSum repl) (labels.shiftAbove p n) with
        | error e => simp [hr] at h
        | ok r =>
          obtain ⟨o, l2⟩ := r
          simp only [hr, pure, Except.pure, Except.ok.injEq, Prod.mk.injEq] at h
          rw [← h.1] at hmem
          rcases List.mem_append.mp hmem with hm | hm
          · cases it with
            | pseudo l0 name args =>
              exfalso
              simp only [pseudoBody, bind, Except.bind] at hb
              cases hres : expandPseudo H (chainGet constants labels) l0 name args p with
              | error e => simp [hres] at hb
              | ok res =>
                obtain ⟨instrs, short⟩ := res
                simp only [hres, pure, Except.pure, Except.ok.injEq, Prod.mk.injEq] at hb
                rw [← hb.1] at hm
                obtain ⟨i0, hi0, he⟩ := List.mem_map.mp hm
                simp only [Item.instr.injEq] at he
                obtain ⟨_, rfl⟩ := he
                unfold expandPseudo at hres
                cases hk : pseudoKind name with
                | none => simp [hk] at hres
                | some k =>
                  simp only [hk] at hres
                  have := (expandKind_shape hres).1 i0 hi0
                  rw [this] at hx; cases hx
            | label l nm => exact absurd rfl (hnl l nm)
            | _ =>
              obtain ⟨rfl, _⟩ := keepItem_ok (by simpa [pseudoBody] using hb)
              simp only [List.mem_singleton] at hm
              rw [hm]; exact List.mem_cons_self
          · exact List.mem_cons_of_mem _ (ih _ _ o l2 hr line x hm hx)

/-- what the compression pass does to a compressed instruction of its input: nothing -/
theorem itemStep_of_compressed {H : Hooks} {constants : Dict} {it : Item} {line : Line} {cf : Instr}
    (h : ItemStep H constants it (.instr line cf)) (hc : cf.isCompressed = true) :
    it = .instr line cf ∨ ∃ ins, it = .instr line ins ∧ ins.isCompressed = false := by
  cases h with
  | same => exact Or.inl rfl
  | compressed _ ins _ c preds position labels hmem hall hcf haj =>
    exact Or.inr ⟨ins, rfl, (compressedForm_sizes hcf).1⟩

end BB.Lemmas
