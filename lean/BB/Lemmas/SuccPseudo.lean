/-
  BB.Lemmas.SuccPseudo — the instructions a pseudo-instruction expands to: well-kinded, their register
  operands, their immediates.
-/
import BB.Lemmas.SuccBodies
set_option linter.unusedSimpArgs false
set_option linter.unusedVariables false
set_option linter.unusedTactic false
set_option linter.unreachableTactic false
namespace BB.Lemmas
open BB BB.Spec

/-- the real mnemonics behind the pseudo-branches -/
def realsOK : Option PKind → Bool
  | some (.brz r) => decide (r = "beq" ∨ r = "bne" ∨ r = "bge" ∨ r = "blt")
  | some (.brz2 r) => decide (r = "bge" ∨ r = "blt")
  | some (.br2 r) => decide (r = "blt" ∨ r = "bge" ∨ r = "bltu" ∨ r = "bgeu")
  | _ => true

theorem pseudoKind_reals (name : String) : realsOK (pseudoKind name) = true := by
  unfold pseudoKind
  simp only [apply_ite realsOK]
  simp [realsOK]

theorem pseudoKind_brz {name real : String} (h : pseudoKind name = some (.brz real)) :
    real = "beq" ∨ real = "bne" ∨ real = "bge" ∨ real = "blt" := by
  have := pseudoKind_reals name
  rw [h] at this
  simpa [realsOK] using this

theorem pseudoKind_brz2 {name real : String} (h : pseudoKind name = some (.brz2 real)) :
    real = "bge" ∨ real = "blt" := by
  have := pseudoKind_reals name
  rw [h] at this
  simpa [realsOK] using this

theorem pseudoKind_br2 {name real : String} (h : pseudoKind name = some (.br2 real)) :
    real = "blt" ∨ real = "bge" ∨ real = "bltu" ∨ real = "bgeu" := by
  have := pseudoKind_reals name
  rw [h] at this
  simpa [realsOK] using this

/-- every instruction of an expansion is of the class INSTRUCTIONS lists for its mnemonic -/
theorem expandKind_wellKinded {H : Hooks} {env : String → Option Int} {line : Line} {name : String} {k : PKind}
    {args : List String} {p : Int} {instrs : List Instr} {short : Bool} (hk : pseudoKind name = some k)
    (h : expandKind H env line k args p = .ok (instrs, short)) : ∀ i ∈ instrs, i.wellKinded = true := by
  unfold expandKind at h
  cases k <;> simp only at h
  case brz real =>
    have hr := pseudoKind_brz hk
    repeat' split at h
    all_goals (try (simp at h; done))
    all_goals (
      simp only [bind, Except.bind, pure, Except.pure] at h
      repeat' split at h
      all_goals (try (simp at h; done))
      all_goals (simp only [Except.ok.injEq, Prod.mk.injEq] at h; obtain ⟨rfl, _⟩ := h)
      all_goals (intro i hi; simp only [List.mem_singleton] at hi; subst hi)
      all_goals (rcases hr with rfl | rfl | rfl | rfl <;> rfl))
  case brz2 real =>
    have hr := pseudoKind_brz2 hk
    repeat' split at h
    all_goals (try (simp at h; done))
    all_goals (
      simp only [bind, Except.bind, pure, Except.pure] at h
      repeat' split at h
      all_goals (try (simp at h; done))
      all_goals (simp only [Except.ok.injEq, Prod.mk.injEq] at h; obtain ⟨rfl, _⟩ := h)
      all_goals (intro i hi; simp only [List.mem_singleton] at hi; subst hi)
      all_goals (rcases hr with rfl | rfl <;> rfl))
  case br2 real =>
    have hr := pseudoKind_br2 hk
    repeat' split at h
    all_goals (try (simp at h; done))
    all_goals (
      simp only [bind, Except.bind, pure, Except.pure] at h
      repeat' split at h
      all_goals (try (simp at h; done))
      all_goals (simp only [Except.ok.injEq, Prod.mk.injEq] at h; obtain ⟨rfl, _⟩ := h)
      all_goals (intro i hi; simp only [List.mem_singleton] at hi; subst hi)
      all_goals (rcases hr with rfl | rfl | rfl | rfl <;> rfl))
  all_goals (repeat' split at h)
  all_goals (try (simp at h; done))
  all_goals (try (simp only [Except.ok.injEq, Prod.mk.injEq] at h; obtain ⟨rfl, _⟩ := h;
                  intro i hi; simp only [List.mem_cons, List.mem_nil_iff, or_false] at hi;
                  rcases hi with rfl | rfl <;> rfl; done))
  all_goals (try (simp only [Except.ok.injEq, Prod.mk.injEq] at h; obtain ⟨rfl, _⟩ := h;
                  intro i hi; simp only [List.mem_singleton] at hi; subst hi; rfl; done))
  all_goals (
    simp only [bind, Except.bind, pure, Except.pure] at h
    repeat' split at h
    all_goals (try (simp at h; done))
    all_goals (simp only [Except.ok.injEq, Prod.mk.injEq] at h; obtain ⟨rfl, _⟩ := h)
    all_goals (intro i hi; simp only [List.mem_cons, List.mem_nil_iff, or_false] at hi)
    all_goals (first | (rcases hi with rfl | rfl <;> rfl) | (subst hi; rfl)))

end BB.Lemmas

namespace BB.Lemmas
open BB BB.Spec
open BB.Props.C05 (documented immTokens expand_matches_doc)

/-- which arguments of a pseudo-instruction are register operands -/
def regArgs (k : PKind) (args : List String) : List String :=
  match k with
  | .li => args.take 1
  | .mv | .not | .neg | .seqz | .snez | .sltz | .sgtz => args.take 2
  | .brz _ | .brz2 _ => args.take 1
  | .br2 _ => args.take 2
  | .jr | .jalr => args.take 1
  | _ => []

/-- the register operands of the instructions of an expansion: x0, x1, x6, or a register argument -/
theorem expansion_regs {k : PKind} {args : List String} {imm : Imm} {short : Bool} {instrs : List Instr}
    (h : documented k args imm short = some instrs) :
    ∀ i ∈ instrs, ∀ f x, i.fld f = some x →
      x = .str "x0" ∨ x = .str "x1" ∨ x = .str "x6" ∨ ∃ a ∈ regArgs k args, x = .str a := by
  unfold documented at h
  simp only at h
  split at h
  all_goals (try (simp at h; done))
  all_goals (simp only [Option.some.injEq] at h; subst h)
  all_goals (intro i hi f x hf)
  all_goals (try split at hi)
  all_goals (simp only [List.mem_cons, List.mem_nil_iff, or_false] at hi)
  all_goals (
    first
      | (rcases hi with rfl | rfl <;> cases f <;> simp only [Instr.fld, Option.some.injEq, reduceCtorEq] at hf <;>
          subst hf <;> simp [regArgs])
      | (subst hi; cases f <;> simp only [Instr.fld, Option.some.injEq, reduceCtorEq] at hf <;>
          subst hf <;> simp [regArgs]))

/-- the immediates of the instructions of an expansion -/
theorem expansion_imms {k : PKind} {args : List String} {imm : Imm} {short : Bool} {instrs : List Instr}
    (h : documented k args imm short = some instrs) :
    ∀ i ∈ instrs, ∀ x, i.imm? = some x →
      x = .arith "0" ∨ x = .arith "-1" ∨ x = .arith "1" ∨
      ((immTokens k args).isSome = true ∧ (x = imm ∨ x = .lo imm ∨ x = .hi imm)) := by
  unfold documented at h
  simp only at h
  split at h
  all_goals (try (simp at h; done))
  all_goals (simp only [Option.some.injEq] at h; subst h)
  all_goals (intro i hi x hx)
  all_goals (try split at hi)
  all_goals (simp only [List.mem_cons, List.mem_nil_iff, or_false] at hi)
  all_goals (
    first
      | (rcases hi with rfl | rfl <;> simp only [Instr.imm?, Option.some.injEq, reduceCtorEq] at hx <;>
          subst hx <;> simp [immTokens])
      | (subst hi; simp only [Instr.imm?, Option.some.injEq, reduceCtorEq] at hx <;> subst hx <;> simp [immTokens])
      | (subst hi; simp [Instr.imm?] at hx))

theorem mapRegs_fld (f : RegOp → RegOp) (i : Instr) (fl : Fld) : (i.mapRegs f).fld fl = (i.fld fl).map f := by
  cases i <;> cases fl <;> rfl

theorem mapRegs_imm (f : RegOp → RegOp) (i : Instr) : (i.mapRegs f).imm? = i.imm? := by
  cases i <;> rfl

end BB.Lemmas
