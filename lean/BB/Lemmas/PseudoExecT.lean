/-
  BB.Lemmas.PseudoExecT — the instructions of an expansion that refer to a label, read in the output:
  a branch / jal on `%offset ref` (possibly compressed by one of the four transfer rules), and the two
  instructions of a far pair (never compressed).
-/
import BB.Lemmas.PseudoExec
import BB.Props.C04TwoOutputs
set_option linter.unusedSimpArgs false
set_option linter.unusedVariables false
namespace BB.Lemmas
open BB BB.Spec
open BB.Props.C03 (Land Finish)
open BB.Props.C04 (IsBJ comp_transfer_sem)

/-- a branch / jal on `%offset ref`, `ref` a label no constant shadows, at distance `t − q` -/
theorem final_exec_offset {H : Hooks} {r : AsmResult} {names : List String} {compress : Bool} {line : Line} {i' : Instr}
    {x : Item} {q t : Int} {d : List Nat} {ref : String} {i32 : Instr32}
    (hlit : ∀ line p env, LitOK (evalAt H env line p))
    (hf : FinalOf H r.constants compress line i' x) (hpl : PlacedAt H r q x d)
    (hwk : i'.wellKinded = true) (hbj : IsBJ i') (himm : i'.imm? = some (.offset ref))
    (hn : ref ∈ names) (hc : r.constants.get ref = none) (ht : r.labels.get ref = some t)
    (horacle : compress = true → ∀ cf, x = .instr line cf → cf.isCompressed = true →
      DecOracle H r.constants r.labels names q line cf)
    (hden : (∀ f x, i'.fld f = some x → (lookupRegister x).isSome = true) →
      denote32I (i'.setImm (.value (t - q))) = some i32) :
    (∀ f x, i'.fld f = some x → (lookupRegister x).isSome = true) ∧
    ∃ n : Nat, (n = 4 ∨ n = 2) ∧ x.sizeD = (n : Int) ∧ ExecAt r q n (exec i32 n) := by
  obtain ⟨k, hk, hs, hnc⟩ := wellKinded_row hwk
  have haj : i'.isAuipcJump = false := by
    rcases hbj with ⟨_, _, _, _, rfl⟩ | ⟨_, _, _, rfl⟩ <;> rfl
  have hna : ∀ n rd rs1 rs2 aq rl, i' ≠ .a n rd rs1 rs2 aq rl := by
    rcases hbj with ⟨_, _, _, _, rfl⟩ | ⟨_, _, _, rfl⟩ <;> (intro _ _ _ _ _ _ e; cases e)
  have hnal : ∀ n rd rs1 aq rl, i' ≠ .al n rd rs1 aq rl := by
    rcases hbj with ⟨_, _, _, _, rfl⟩ | ⟨_, _, _, rfl⟩ <;> (intro _ _ _ _ _ e; cases e)
  rcases hf with rfl | ⟨hcomp, cf, c, preds, p, L, rfl, dd⟩
  · obtain ⟨rins', w, i, hres', _, hdw, hdec, hi⟩ := placed_read32 hk hs hnc hpl
    simp only [ajPos, haj, Bool.false_eq_true, if_false, resolveWith, himm, evalAt_offset q hc ht, Option.map_some,
      Option.some.injEq] at hres'
    subst hres'
    have hv : ∀ f x, i'.fld f = some x → (lookupRegister x).isSome = true := by
      intro f x hx
      refine regs_valid_of_denote (by rw [setImm_wellKinded]; exact hwk) ?_ ?_ hi f x (by rw [setImm_fld]; exact hx)
      · rcases hbj with ⟨_, _, _, _, rfl⟩ | ⟨_, _, _, rfl⟩ <;> (intro _ _ _ _ _ _ e; cases e)
      · rcases hbj with ⟨_, _, _, _, rfl⟩ | ⟨_, _, _, rfl⟩ <;> (intro _ _ _ _ _ e; cases e)
    rw [hden hv] at hi
    cases hi
    refine ⟨hv, 4, Or.inl rfl, by rw [instr_sizeD, hnc]; rfl, Or.inl ⟨rfl, w, i32, ?_, hdec, fun _ => rfl⟩⟩
    obtain ⟨_, _, _, _, hlen, hsl⟩ := hpl
    rw [hdw, leBytes_length] at hsl
    rw [hsl]
  · have hcne : c ≠ "c.swsp" := by
      intro e; subst e
      have := dd.2.2.2.2
      rcases hbj with ⟨_, _, _, _, rfl⟩ | ⟨_, _, _, rfl⟩ <;> simp [compressedForm] at this
    have hv := decided_regs dd hcne
    have hcc := (compressedForm_sizes dd.2.2.2.2).2
    obtain ⟨w1, ci, i1, hw1, hdec, hlegal, hden1, hexec⟩ :=
      comp_transfer_sem hlit dd hbj himm hn hc (horacle hcomp cf rfl hcc) hpl t ht
    rw [hden hv] at hden1
    cases hden1
    refine ⟨hv, 2, Or.inr rfl, by rw [instr_sizeD, hcc]; rfl, Or.inr ⟨rfl, w1, ci, ?_, hdec, hlegal, hexec⟩⟩
    obtain ⟨_, _, _, _, hlen, hsl⟩ := hpl
    rw [hw1, leBytes_length] at hsl
    rw [hsl]

/-- an instruction no compression rule touches (the `auipc` and the `jalr` of a far pair): it stands in the
    final list as it is; its resolved form, the acceptance by its encoder, its word -/
theorem final_exec_same {H : Hooks} {r : AsmResult} {compress : Bool} {line : Line} {i' : Instr} {x : Item} {q : Int}
    {d : List Nat} (hf : FinalOf H r.constants compress line i' x) (hpl : PlacedAt H r q x d)
    (hwk : i'.wellKinded = true)
    (hno : ∀ cf c preds p L, ¬ DecidedAt H r.constants line cf i' c preds p L) :
    x = .instr line i' ∧ x.sizeD = 4 ∧
    ∃ rins i, resolveWith (evalAt H (chainGet r.constants r.labels) line (ajPos i' q)) i' = some rins ∧
      encodeInstr line rins = .ok d ∧ denote32I rins = some i ∧ ExecAt r q 4 (exec i 4) := by
  obtain ⟨k, hk, hs, hnc⟩ := wellKinded_row hwk
  rcases hf with rfl | ⟨_, cf, c, preds, p, L, rfl, dd⟩
  · obtain ⟨rins, w, i, hres, henc, hdw, hdec, hi⟩ := placed_read32 hk hs hnc hpl
    refine ⟨rfl, by rw [instr_sizeD, hnc]; rfl, rins, i, hres, henc, hi, Or.inl ⟨rfl, w, i, ?_, hdec, fun _ => rfl⟩⟩
    obtain ⟨_, _, _, _, hlen, hsl⟩ := hpl
    rw [hdw, leBytes_length] at hsl
    rw [hsl]
  · exact absurd dd (hno _ _ _ _ _)

theorem no_decision_auipc {H : Hooks} {constants : Dict} {line : Line} {rA : RegOp} {imm : Imm} :
    ∀ cf c preds p L, ¬ DecidedAt H constants line cf (.u "auipc" rA imm) c preds p L := by
  intro cf c preds p L d
  exact absurd (decided_name_base d) (by simp [Instr.name, baseNames])

theorem no_decision_aj {H : Hooks} {constants : Dict} {line : Line} {n : String} {rd rA : RegOp} {imm : Imm} :
    ∀ cf c preds p L, ¬ DecidedAt H constants line cf (.i n rd rA imm true) c preds p L := by
  intro cf c preds p L d
  have := d.2.1
  simp [Instr.isAuipcJump] at this

end BB.Lemmas
