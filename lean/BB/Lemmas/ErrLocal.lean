/-
  BB.Lemmas.ErrLocal — item-local facts for `fault_lifts`: which items pass in any context
  (`Passes`), which instructions / data items die with `.asm line` in any context (`Dies`).
-/
import BB.Lemmas.ErrStages
import BB.Lemmas.SuccBodies
namespace BB.Lemmas
open BB

/-! ### building blocks -/

theorem passes_cons_fixed {Q : Dict → Prop} {s : Stage} {ss : List Stage} {y : Item}
    (hnl : ∀ l n, y ≠ .label l n) (hs : ∀ p l, s y p l = .ok [y]) (h : Passes Q ss y) : Passes Q (s :: ss) y :=
  ⟨hnl, fun p l _ => ⟨[y], hs p l, fun z hz => by simp only [List.mem_singleton] at hz; subst hz; exact h⟩⟩

theorem passes_cons_to {Q : Dict → Prop} {s : Stage} {ss : List Stage} {y : Item}
    (hnl : ∀ l n, y ≠ .label l n) (hs : ∀ p l, Q l → ∃ z, s y p l = .ok [z] ∧ Passes Q ss z) :
    Passes Q (s :: ss) y :=
  ⟨hnl, fun p l hl => by
    obtain ⟨z, hz, hp⟩ := hs p l hl
    exact ⟨[z], hz, fun w hw => by simp only [List.mem_singleton] at hw; subst hw; exact hp⟩⟩

theorem dies_cons_fixed {Q : Dict → Prop} {e : Err} {s : Stage} {ss : List Stage} {x : Item}
    (hnl : ∀ l n, x ≠ .label l n) (hs : ∀ p l, s x p l = .ok [x]) (h : Dies Q e ss x) : Dies Q e (s :: ss) x :=
  ⟨hnl, fun p l _ => Or.inr ⟨[x], hs p l, fun z hz => by simp only [List.mem_singleton] at hz; subst hz; exact Or.inl h,
    ⟨x, by simp, h⟩⟩⟩

theorem dies_cons_now {Q : Dict → Prop} {e : Err} {s : Stage} {ss : List Stage} {x : Item}
    (hnl : ∀ l n, x ≠ .label l n) (hs : ∀ p l, Q l → s x p l = .error e) : Dies Q e (s :: ss) x :=
  ⟨hnl, fun p l hl => Or.inl (hs p l hl)⟩

/-- dies now, or is rewritten into one item that dies later -/
theorem dies_cons_to {Q : Dict → Prop} {e : Err} {s : Stage} {ss : List Stage} {x : Item}
    (hnl : ∀ l n, x ≠ .label l n)
    (hs : ∀ p l, Q l → s x p l = .error e ∨ ∃ z, s x p l = .ok [z] ∧ Dies Q e ss z) : Dies Q e (s :: ss) x :=
  ⟨hnl, fun p l hl => by
    rcases hs p l hl with he | ⟨z, hz, hd⟩
    · exact Or.inl he
    · exact Or.inr ⟨[z], hz, fun w hw => by simp only [List.mem_singleton] at hw; subst hw; exact Or.inl hd,
        ⟨z, by simp, hd⟩⟩⟩

/-! ### what the stages do to items they leave alone -/

theorem keepE_instr (line : Line) (ins : Instr) : keepItem (.instr line ins) = .ok ([.instr line ins], 0) := by
  simp [keepItem, Item.sizeE, Item.size?, bind, Except.bind, pure, Except.pure]

theorem keepE_blob (line : Line) (d : List Nat) : keepItem (.blob line d) = .ok ([.blob line d], 0) := by
  simp [keepItem, Item.sizeE, Item.size?, bind, Except.bind, pure, Except.pure]

theorem keepE_string (line : Line) (v : String) : keepItem (.string line v) = .ok ([.string line v], 0) := by
  simp [keepItem, Item.sizeE, Item.size?, bind, Except.bind, pure, Except.pure]

theorem keepE_align (line : Line) (a : Int) : keepItem (.align line a) = .ok ([.align line a], 0) := by
  simp [keepItem, Item.sizeE, Item.size?, bind, Except.bind, pure, Except.pure]

theorem pseudoStage_instr (H : Hooks) (line : Line) (ins : Instr) (p : Int) (l : Dict) :
    bodyStage (pseudoBody H []) (.instr line ins) p l = .ok [.instr line ins] := by
  simp [bodyStage, pseudoBody, keepE_instr]

theorem alignStage_instr (line : Line) (ins : Instr) (p : Int) (l : Dict) :
    bodyStage alignBody (.instr line ins) p l = .ok [.instr line ins] := by
  simp [bodyStage, alignBody, keepE_instr]

/-- the last five stages leave a blob alone -/
def blobStages (H : Hooks) : List Stage :=
  [mapStage strStep, stepStage seqStep, stepStage shorthandStep, stepStage packStep, stepStage (includeBytesStep H)]

theorem passes_blob_tail (H : Hooks) (Q : Dict → Prop) (line : Line) (d : List Nat) :
    Passes Q (blobStages H) (.blob line d) := by
  have hnl : ∀ l n, Item.blob line d ≠ .label l n := by intro l n h; cases h
  unfold blobStages
  refine passes_cons_fixed hnl (fun _ _ => rfl) ?_
  refine passes_cons_fixed hnl (fun _ _ => rfl) ?_
  refine passes_cons_fixed hnl (fun _ _ => rfl) ?_
  refine passes_cons_fixed hnl (fun _ _ => rfl) ?_
  refine passes_cons_fixed hnl (fun _ _ => rfl) ?_
  trivial

/-- stages 4 … 11 -/
def tailStages (H : Hooks) : List Stage :=
  bodyStage alignBody :: bodyStage (immBody H []) :: stepStage instrStep :: blobStages H

theorem stages_eq (H : Hooks) (c : Bool) :
    stages H c = compressStage H c :: bodyStage (pseudoBody H []) :: compressStage H c :: tailStages H := rfl

/-! ### instructions -/

/-- an immediate whose value does not depend on position, labels or constants -/
def LitImm (H : Hooks) (imm : Imm) (v : Int) : Prop := ∀ env line p, imm.eval H env line p = .ok v

/-- resolve_immediates and the encoder accept the instruction in every context -/
def Resolves (H : Hooks) (line : Line) (ins : Instr) : Prop :=
  ∀ p l, ∃ ins' bs, immBody H [] (.instr line ins) p l = .ok ([.instr line ins'], 0) ∧ encodeInstr line ins' = .ok bs

/-- resolve_immediates or the encoder refuses the instruction with `.asm line` in every context -/
def Refused (H : Hooks) (Q : Dict → Prop) (line : Line) (ins : Instr) : Prop :=
  ∀ p l, Q l → immBody H [] (.instr line ins) p l = .error (.asm line) ∨
    ∃ ins', immBody H [] (.instr line ins) p l = .ok ([.instr line ins'], 0) ∧ encodeInstr line ins' = .error (.asm line)

theorem passes_tail_instr {H : Hooks} {Q : Dict → Prop} {line : Line} {ins : Instr} (h : Resolves H line ins) :
    Passes Q (tailStages H) (.instr line ins) := by
  have hnl : ∀ (i : Instr) l n, Item.instr line i ≠ .label l n := by intro i l n h; cases h
  unfold tailStages
  refine passes_cons_fixed (hnl ins) (alignStage_instr line ins) ?_
  refine passes_cons_to (hnl ins) (fun p l _ => ?_)
  obtain ⟨ins', bs, hi, he⟩ := h p l
  refine ⟨.instr line ins', by simp [bodyStage, hi], ?_⟩
  refine passes_cons_to (hnl ins') (fun _ _ _ => ⟨.blob line bs, ?_, passes_blob_tail H Q line bs⟩)
  simp [stepStage, instrStep, he, bind, Except.bind, pure, Except.pure]

theorem dies_tail_instr {H : Hooks} {Q : Dict → Prop} {line : Line} {ins : Instr} (h : Refused H Q line ins) :
    Dies Q (.asm line) (tailStages H) (.instr line ins) := by
  have hnl : ∀ (i : Instr) l n, Item.instr line i ≠ .label l n := by intro i l n h; cases h
  unfold tailStages
  refine dies_cons_fixed (hnl ins) (alignStage_instr line ins) ?_
  refine dies_cons_to (hnl ins) (fun p l hl => ?_)
  rcases h p l hl with he | ⟨ins', hi, he⟩
  · exact Or.inl (by simp [bodyStage, he])
  · refine Or.inr ⟨.instr line ins', by simp [bodyStage, hi], ?_⟩
    exact dies_cons_now (hnl ins') (fun _ _ _ => by simp [stepStage, instrStep, he, bind, Except.bind])

/-- what transform_compressible does with an instruction, as far as the outcome matters:
    `good ci` must hold of the form it is rewritten to -/
def CompressOutcome (line : Line) (ins : Instr) (allowErr : Bool) (good : Instr → Prop)
    (r : Except Err (Option String)) : Prop :=
  (allowErr = true ∧ r = .error (.asm line)) ∨ r = .ok none ∨
    ∃ cn ci, r = .ok (some cn) ∧ compressedForm cn ins = some ci ∧ ci.isAuipcJump = false ∧ good ci

theorem compressStage_true (H : Hooks) : compressStage H true = bodyStage (compressBody H []) := rfl
theorem compressStage_false (H : Hooks) : compressStage H false = idStage := rfl

/-- the compressed form is never matched again -/
theorem compressStage_cform (H : Hooks) (c : Bool) {cn : String} {ins ci : Instr} (line : Line)
    (hc : compressedForm cn ins = some ci) (p : Int) (l : Dict) :
    compressStage H c (.instr line ci) p l = .ok [.instr line ci] := by
  cases c with
  | false => rfl
  | true =>
    rw [compressStage_true]
    simp [bodyStage, compressBody_cname_ok (compressedForm_name hc), keepE_instr]

theorem compressBody_of_firstMatch {H : Hooks} {line : Line} {ins : Instr} {p : Int} {l : Dict}
    (haj : ins.isAuipcJump = false) :
    (firstMatch H (chainGet [] l) line ins p criteria = .error (.asm line) →
      compressBody H [] (.instr line ins) p l = .error (.asm line)) ∧
    (firstMatch H (chainGet [] l) line ins p criteria = .ok none →
      compressBody H [] (.instr line ins) p l = .ok ([.instr line ins], 0)) ∧
    (∀ cn ci, firstMatch H (chainGet [] l) line ins p criteria = .ok (some cn) → compressedForm cn ins = some ci →
      compressBody H [] (.instr line ins) p l = .ok ([.instr line ci], 2)) := by
  refine ⟨?_, ?_, ?_⟩
  · intro h; simp [compressBody, haj, h]
  · intro h; simp [compressBody, haj, h, keepE_instr]
  · intro cn ci h hc; simp [compressBody, haj, h, hc, pure, Except.pure]

/-- an instruction that every stage accepts, compression on or off -/
structure GoodInstr (H : Hooks) (c : Bool) (line : Line) (ins : Instr) : Prop where
  aj : ins.isAuipcJump = false
  res : Resolves H line ins
  cmp : c = true → ∀ p l, CompressOutcome line ins false (Resolves H line)
          (firstMatch H (chainGet [] l) line ins p criteria)

/-- an instruction that some stage refuses with `.asm line`, compression on or off -/
structure BadInstr (H : Hooks) (c : Bool) (Q : Dict → Prop) (line : Line) (ins : Instr) : Prop where
  aj : ins.isAuipcJump = false
  ref : Refused H Q line ins
  cmp : c = true → ∀ p l, Q l → CompressOutcome line ins true (Refused H Q line)
          (firstMatch H (chainGet [] l) line ins p criteria)

theorem passes_compress_then {H : Hooks} {c : Bool} {Q : Dict → Prop} {line : Line} {ins : Instr} {ss : List Stage}
    (hg : GoodInstr H c line ins)
    (hkeep : Passes Q ss (.instr line ins))
    (hci : ∀ cn ci, compressedForm cn ins = some ci → ci.isAuipcJump = false → Resolves H line ci →
      Passes Q ss (.instr line ci)) :
    Passes Q (compressStage H c :: ss) (.instr line ins) := by
  have hnl : ∀ l n, Item.instr line ins ≠ .label l n := by intro l n h; cases h
  cases c with
  | false => exact passes_cons_fixed hnl (fun _ _ => rfl) hkeep
  | true =>
    rw [compressStage_true]
    refine passes_cons_to hnl (fun p l _ => ?_)
    obtain ⟨f1, f2, f3⟩ := compressBody_of_firstMatch (H := H) (line := line) (p := p) (l := l) hg.aj
    rcases hg.cmp rfl p l with ⟨hf, _⟩ | hn | ⟨cn, ci, hs, hc, haj, hr⟩
    · cases hf
    · exact ⟨_, by simp [bodyStage, f2 hn], hkeep⟩
    · exact ⟨_, by simp [bodyStage, f3 cn ci hs hc], hci cn ci hc haj hr⟩

theorem dies_compress_then {H : Hooks} {c : Bool} {Q : Dict → Prop} {line : Line} {ins : Instr} {ss : List Stage}
    (hb : BadInstr H c Q line ins)
    (hkeep : Dies Q (.asm line) ss (.instr line ins))
    (hci : ∀ cn ci, compressedForm cn ins = some ci → ci.isAuipcJump = false → Refused H Q line ci →
      Dies Q (.asm line) ss (.instr line ci)) :
    Dies Q (.asm line) (compressStage H c :: ss) (.instr line ins) := by
  have hnl : ∀ l n, Item.instr line ins ≠ .label l n := by intro l n h; cases h
  cases c with
  | false => exact dies_cons_fixed hnl (fun _ _ => rfl) hkeep
  | true =>
    rw [compressStage_true]
    refine dies_cons_to hnl (fun p l hl => ?_)
    obtain ⟨f1, f2, f3⟩ := compressBody_of_firstMatch (H := H) (line := line) (p := p) (l := l) hb.aj
    rcases hb.cmp rfl p l hl with ⟨_, he⟩ | hn | ⟨cn, ci, hs, hc, haj, hr⟩
    · exact Or.inl (by simp [bodyStage, f1 he])
    · exact Or.inr ⟨_, by simp [bodyStage, f2 hn], hkeep⟩
    · exact Or.inr ⟨_, by simp [bodyStage, f3 cn ci hs hc], hci cn ci hc haj hr⟩

/-- **a good instruction passes** -/
theorem passes_instr {H : Hooks} {c : Bool} (Q : Dict → Prop) {line : Line} {ins : Instr} (hg : GoodInstr H c line ins) :
    Passes Q (stages H c) (.instr line ins) := by
  have hnl : ∀ (i : Instr) l n, Item.instr line i ≠ .label l n := by intro i l n h; cases h
  -- a compressed form: pseudo stage, second compression (no match), tail
  have hcf : ∀ cn ci, compressedForm cn ins = some ci → ci.isAuipcJump = false → Resolves H line ci →
      Passes Q (bodyStage (pseudoBody H []) :: compressStage H c :: tailStages H) (.instr line ci) := by
    intro cn ci hc _ hr
    refine passes_cons_fixed (hnl ci) (pseudoStage_instr H line ci) ?_
    exact passes_cons_fixed (hnl ci) (compressStage_cform H c line hc) (passes_tail_instr hr)
  rw [stages_eq]
  refine passes_compress_then hg ?_ hcf
  refine passes_cons_fixed (hnl ins) (pseudoStage_instr H line ins) ?_
  refine passes_compress_then hg (passes_tail_instr hg.res) ?_
  intro cn ci _ _ hr
  exact passes_tail_instr hr

/-- **a bad instruction dies with its own line** -/
theorem dies_instr {H : Hooks} {c : Bool} {Q : Dict → Prop} {line : Line} {ins : Instr} (hb : BadInstr H c Q line ins) :
    Dies Q (.asm line) (stages H c) (.instr line ins) := by
  have hnl : ∀ (i : Instr) l n, Item.instr line i ≠ .label l n := by intro i l n h; cases h
  have hcf : ∀ cn ci, compressedForm cn ins = some ci → ci.isAuipcJump = false → Refused H Q line ci →
      Dies Q (.asm line) (bodyStage (pseudoBody H []) :: compressStage H c :: tailStages H) (.instr line ci) := by
    intro cn ci hc _ hr
    refine dies_cons_fixed (hnl ci) (pseudoStage_instr H line ci) ?_
    exact dies_cons_fixed (hnl ci) (compressStage_cform H c line hc) (dies_tail_instr hr)
  rw [stages_eq]
  refine dies_compress_then hb ?_ hcf
  refine dies_cons_fixed (hnl ins) (pseudoStage_instr H line ins) ?_
  refine dies_compress_then hb (dies_tail_instr hb.ref) ?_
  intro cn ci _ _ hr
  exact dies_tail_instr hr

/-! ### other good items: blobs, strings, aligns -/

theorem compressStage_other (H : Hooks) (c : Bool) (y : Item) (hni : ∀ line ins, y ≠ .instr line ins)
    (hk : keepItem y = .ok ([y], 0)) (p : Int) (l : Dict) : compressStage H c y p l = .ok [y] := by
  cases c with
  | false => rfl
  | true =>
    rw [compressStage_true]
    cases y <;> first
      | exact absurd rfl (hni _ _)
      | simp [bodyStage, compressBody, hk]

theorem pseudoStage_other (H : Hooks) (y : Item) (hnp : ∀ line n a, y ≠ .pseudo line n a)
    (hk : keepItem y = .ok ([y], 0)) (p : Int) (l : Dict) : bodyStage (pseudoBody H []) y p l = .ok [y] := by
  cases y <;> first
    | exact absurd rfl (hnp _ _ _)
    | simp [bodyStage, pseudoBody, hk]

theorem passes_blob (H : Hooks) (c : Bool) (Q : Dict → Prop) (line : Line) (d : List Nat) :
    Passes Q (stages H c) (.blob line d) := by
  have hnl : ∀ l n, Item.blob line d ≠ .label l n := by intro l n h; cases h
  have hk := keepE_blob line d
  rw [stages_eq]
  refine passes_cons_fixed hnl (compressStage_other H c _ (by intro _ _ h; cases h) hk) ?_
  refine passes_cons_fixed hnl (pseudoStage_other H _ (by intro _ _ _ h; cases h) hk) ?_
  refine passes_cons_fixed hnl (compressStage_other H c _ (by intro _ _ h; cases h) hk) ?_
  unfold tailStages
  refine passes_cons_fixed hnl (fun _ _ => by simp [bodyStage, alignBody, hk]) ?_
  refine passes_cons_fixed hnl (fun _ _ => by simp [bodyStage, immBody, hk]) ?_
  refine passes_cons_fixed hnl (fun _ _ => rfl) ?_
  exact passes_blob_tail H Q line d

theorem passes_string (H : Hooks) (c : Bool) (Q : Dict → Prop) (line : Line) (v : String) :
    Passes Q (stages H c) (.string line v) := by
  have hnl : ∀ l n, Item.string line v ≠ .label l n := by intro l n h; cases h
  have hnlb : ∀ l n, Item.blob line (utf8Bytes v) ≠ .label l n := by intro l n h; cases h
  have hk := keepE_string line v
  rw [stages_eq]
  refine passes_cons_fixed hnl (compressStage_other H c _ (by intro _ _ h; cases h) hk) ?_
  refine passes_cons_fixed hnl (pseudoStage_other H _ (by intro _ _ _ h; cases h) hk) ?_
  refine passes_cons_fixed hnl (compressStage_other H c _ (by intro _ _ h; cases h) hk) ?_
  unfold tailStages
  refine passes_cons_fixed hnl (fun _ _ => by simp [bodyStage, alignBody, hk]) ?_
  refine passes_cons_fixed hnl (fun _ _ => by simp [bodyStage, immBody, hk]) ?_
  refine passes_cons_fixed hnl (fun _ _ => rfl) ?_
  unfold blobStages
  refine passes_cons_to hnl (fun _ _ _ => ⟨.blob line (utf8Bytes v), rfl, ?_⟩)
  refine passes_cons_fixed hnlb (fun _ _ => rfl) ?_
  refine passes_cons_fixed hnlb (fun _ _ => rfl) ?_
  refine passes_cons_fixed hnlb (fun _ _ => rfl) ?_
  refine passes_cons_fixed hnlb (fun _ _ => rfl) ?_
  trivial

/-- `align N` with N ≥ 1 passes: it becomes a blob of zero bytes, or nothing -/
theorem passes_align (H : Hooks) (c : Bool) (Q : Dict → Prop) (line : Line) (a : Int) (ha : 0 < a) :
    Passes Q (stages H c) (.align line a) := by
  have hnl : ∀ l n, Item.align line a ≠ .label l n := by intro l n h; cases h
  have hk := keepE_align line a
  rw [stages_eq]
  refine passes_cons_fixed hnl (compressStage_other H c _ (by intro _ _ h; cases h) hk) ?_
  refine passes_cons_fixed hnl (pseudoStage_other H _ (by intro _ _ _ h; cases h) hk) ?_
  refine passes_cons_fixed hnl (compressStage_other H c _ (by intro _ _ h; cases h) hk) ?_
  unfold tailStages
  refine ⟨hnl, fun p l _ => ?_⟩
  have hne : a ≠ 0 := by omega
  cases hp : alignPadding a p with
  | none =>
    simp only [alignPadding, hne, ↓reduceIte] at hp
    split at hp <;> cases hp
  | some pad =>
    have hr := alignPadding_range ha hp
    by_cases h0 : pad = 0
    · refine ⟨[], by simp [bodyStage, alignBody, hp, h0, pure, Except.pure], fun z hz => by simp at hz⟩
    · have hneg : ¬ pad < 0 := by omega
      refine ⟨[.blob line (List.replicate pad.toNat 0)], by simp [bodyStage, alignBody, hp, h0, hneg, pure, Except.pure], ?_⟩
      intro z hz
      simp only [List.mem_singleton] at hz
      subst hz
      have hnlb : ∀ l n, Item.blob line (List.replicate pad.toNat 0) ≠ .label l n := by intro l n h; cases h
      refine passes_cons_fixed hnlb (fun _ _ => by simp [bodyStage, immBody, keepE_blob]) ?_
      refine passes_cons_fixed hnlb (fun _ _ => rfl) ?_
      exact passes_blob_tail H Q line _

/-! ### sufficient conditions for `Resolves` / `Refused` -/

theorem immBody_instr_noimm {H : Hooks} {line : Line} {ins : Instr} (h : ins.imm? = none) (p : Int) (l : Dict) :
    immBody H [] (.instr line ins) p l = .ok ([.instr line ins], 0) := by
  simp [immBody, h, keepE_instr]

theorem immBody_instr_imm {H : Hooks} {line : Line} {ins : Instr} {imm : Imm} (h : ins.imm? = some imm)
    (haj : ins.isAuipcJump = false) (p : Int) (l : Dict) :
    immBody H [] (.instr line ins) p l =
      (match imm.eval H (chainGet [] l) line p with
       | .ok v => .ok ([.instr line (ins.setImm (.value v))], 0)
       | .error e => .error e) := by
  simp only [immBody, h, haj, Bool.false_eq_true, ↓reduceIte, bind, Except.bind, pure, Except.pure]
  cases imm.eval H (chainGet [] l) line p <;> rfl

theorem resolves_noimm {H : Hooks} {line : Line} {ins : Instr} {bs : List Nat} (h : ins.imm? = none)
    (he : encodeInstr line ins = .ok bs) : Resolves H line ins :=
  fun p l => ⟨ins, bs, immBody_instr_noimm h p l, he⟩

theorem resolves_lit {H : Hooks} {line : Line} {ins : Instr} {imm : Imm} {v : Int} {bs : List Nat}
    (h : ins.imm? = some imm) (haj : ins.isAuipcJump = false) (hv : LitImm H imm v)
    (he : encodeInstr line (ins.setImm (.value v)) = .ok bs) : Resolves H line ins := by
  intro p l
  refine ⟨ins.setImm (.value v), bs, ?_, he⟩
  rw [immBody_instr_imm h haj, hv]

/-- refused by the encoder (operand out of range, unknown register): no immediate … -/
theorem refused_noimm {H : Hooks} {Q : Dict → Prop} {line : Line} {ins : Instr} (h : ins.imm? = none)
    (he : encodeInstr line ins = .error (.asm line)) : Refused H Q line ins :=
  fun p l _ => Or.inr ⟨ins, immBody_instr_noimm h p l, he⟩

/-- … or a literal one -/
theorem refused_lit {H : Hooks} {Q : Dict → Prop} {line : Line} {ins : Instr} {imm : Imm} {v : Int}
    (h : ins.imm? = some imm) (haj : ins.isAuipcJump = false) (hv : LitImm H imm v)
    (he : encodeInstr line (ins.setImm (.value v)) = .error (.asm line)) : Refused H Q line ins := by
  intro p l _
  refine Or.inr ⟨ins.setImm (.value v), ?_, he⟩
  rw [immBody_instr_imm h haj, hv]

/-- refused by resolve_immediates: the immediate does not evaluate (undefined label or constant,
    division by zero, malformed or non-integer expression) in any context satisfying `Q` -/
theorem refused_eval {H : Hooks} {Q : Dict → Prop} {line : Line} {ins : Instr} {imm : Imm}
    (h : ins.imm? = some imm) (haj : ins.isAuipcJump = false)
    (hv : ∀ p l, Q l → imm.eval H (chainGet [] l) line p = .error (.asm line)) : Refused H Q line ins := by
  intro p l hl
  left
  rw [immBody_instr_imm h haj, hv p l hl]

/-! ### `firstMatch` only looks at the context through the immediate -/

theorem predEval_congr {H : Hooks} {env env' : String → Option Int} {line : Line} {ins : Instr} {p p' : Int}
    (h : immOf H env line ins p = immOf H env' line ins p') (pr : Pred) :
    pr.eval H env line ins p = pr.eval H env' line ins p' := by
  cases pr <;> simp only [Pred.eval, h]

theorem allPreds_congr {H : Hooks} {env env' : String → Option Int} {line : Line} {ins : Instr} {p p' : Int}
    (h : immOf H env line ins p = immOf H env' line ins p') (preds : List Pred) :
    allPreds H env line ins p preds = allPreds H env' line ins p' preds := by
  induction preds with
  | nil => rfl
  | cons pr rest ih => simp only [allPreds, predEval_congr h pr, ih]

theorem firstMatch_congr {H : Hooks} {env env' : String → Option Int} {line : Line} {ins : Instr} {p p' : Int}
    (h : immOf H env line ins p = immOf H env' line ins p') (cs : List (String × List Pred)) :
    firstMatch H env line ins p cs = firstMatch H env' line ins p' cs := by
  induction cs with
  | nil => rfl
  | cons c rest ih =>
    obtain ⟨name, preds⟩ := c
    simp only [firstMatch, allPreds_congr h preds, ih]

/-- with a literal (or no) immediate, what transform_compressible decides is the same in every context:
    it can be computed once, at position 0 with no labels -/
theorem firstMatch_lit {H : Hooks} {line : Line} {ins : Instr}
    (h : ins.imm? = none ∨ ∃ imm v, ins.imm? = some imm ∧ LitImm H imm v) (p : Int) (l : Dict) :
    firstMatch H (chainGet [] l) line ins p criteria = firstMatch H (chainGet [] []) line ins 0 criteria := by
  apply firstMatch_congr
  rcases h with h | ⟨imm, v, h, hv⟩
  · simp [immOf, h]
  · simp [immOf, h, hv _ _ _]

/-- the same when the immediate fails the same way in every context satisfying `Q` -/
theorem firstMatch_failing {H : Hooks} {Q : Dict → Prop} {line : Line} {ins : Instr} {imm : Imm}
    (h : ins.imm? = some imm) (hv : ∀ p l, Q l → imm.eval H (chainGet [] l) line p = .error (.asm line))
    (hq : Q []) (p : Int) (l : Dict) (hl : Q l) :
    firstMatch H (chainGet [] l) line ins p criteria = firstMatch H (chainGet [] []) line ins 0 criteria := by
  apply firstMatch_congr
  simp [immOf, h, hv p l hl, hv 0 [] hq]

end BB.Lemmas
