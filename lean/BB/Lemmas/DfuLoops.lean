/-
  BB.Lemmas.DfuLoops — the loops of cli_main by induction on the number of pages: the prelude
  (initial GETSTATUS, CLRSTATUS if the device starts in dfuERROR), the erase loop, the write loop,
  the epilogue; with step counts bounded by `costFrom`, so that `fuelBound` is enough fuel.
-/
import BB.Lemmas.DfuRun
namespace BB.Dfu

variable {h : HostCfg} {s : Schedule}

/-! ### reaching a configuration within a number of steps -/

/-- some number of steps ≤ `B` leads from `c` to a configuration satisfying `P` -/
def Reaches (h : HostCfg) (c : Config) (B : Nat) (P : Config → Prop) : Prop := ∃ n, n ≤ B ∧ P (steps h n c)

theorem Reaches.exact {c : Config} {P : Config → Prop} (n : Nat) (hp : P (steps h n c)) : Reaches h c n P :=
  ⟨n, Nat.le_refl _, hp⟩

theorem Reaches.trans {c : Config} {B1 B2 : Nat} {P Q : Config → Prop}
    (h1 : Reaches h c B1 P) (h2 : ∀ c', P c' → Reaches h c' B2 Q) : Reaches h c (B1 + B2) Q := by
  obtain ⟨n1, hn1, hp⟩ := h1
  obtain ⟨n2, hn2, hq⟩ := h2 _ hp
  exact ⟨n1 + n2, by omega, by rw [steps_add]; exact hq⟩

theorem Reaches.mono {c : Config} {B1 B2 : Nat} {P : Config → Prop} (h1 : Reaches h c B1 P) (hb : B1 ≤ B2) :
    Reaches h c B2 P := by
  obtain ⟨n, hn, hp⟩ := h1
  exact ⟨n, by omega, hp⟩

/-! ### cost arithmetic -/

theorem costFrom_succ_right (s : Schedule) (i n : Nat) :
    costFrom s i (n + 1) = costFrom s i n + opCost (s.op (i + n)) := by
  induction n generalizing i with
  | zero => simp [costFrom]
  | succ n ih =>
    rw [costFrom, ih (i + 1), costFrom]
    have : i + 1 + n = i + (n + 1) := by omega
    rw [this]; omega

theorem costFrom_add (s : Schedule) (i a b : Nat) :
    costFrom s i (a + b) = costFrom s i a + costFrom s (i + a) b := by
  induction b with
  | zero => simp [costFrom]
  | succ b ih =>
    rw [← Nat.add_assoc, costFrom_succ_right, ih, costFrom_succ_right]
    have : i + (a + b) = i + a + b := by omega
    rw [this]; omega

/-! ### facts about the padded firmware -/

theorem pages_le (hfit : h.fw.length ≤ pageSize * h.pageCount) : h.pages ≤ h.pageCount := by
  simp only [HostCfg.pages, pageSize] at *
  split <;> omega

theorem padded_length : h.padded.length = h.pages * pageSize := by
  simp only [HostCfg.padded, HostCfg.pages, pageSize]
  split
  · simp only [List.length_append, List.length_replicate]; omega
  · omega

theorem chunk_length {p : Nat} (hp : p < h.pages) : (h.chunk p).length = 1024 := by
  simp only [HostCfg.chunk, List.length_take, List.length_drop, padded_length, pageSize]
  have : (p + 1) * 1024 ≤ h.pages * 1024 := Nat.mul_le_mul_right _ hp
  omega

/-! ### invariants of the two loops -/

/-- at the head of the erase loop, before page `m` -/
structure EraseInv (f₀ : Nat → Cell) (m : Nat) (v : View) : Prop where
  state : v.state = .idle ∨ v.state = .dnloadIdle
  status : v.status = 0
  pending : v.pending = none
  opIdx : v.opIdx = m
  flash : v.flash = fun q => if q < m then .erased else f₀ q
  erased : v.erasedLog = List.range m
  written : v.writtenLog = []
  mon : v.mon = Monitors.clean
  ptr : v.ptr = flashBase

/-- at the head of the write loop, before page `m` -/
structure WriteInv (h : HostCfg) (f₀ : Nat → Cell) (m : Nat) (v : View) : Prop where
  state : v.state = .idle ∨ v.state = .dnloadIdle
  status : v.status = 0
  pending : v.pending = none
  opIdx : v.opIdx = h.pages + 2 * m
  flash : v.flash = fun q => if q < m then .data (h.chunk q) else if q < h.pages then .erased else f₀ q
  erased : v.erasedLog = List.range h.pages
  written : v.writtenLog = List.range m
  mon : v.mon = Monitors.clean
  ptr : v.ptr = pageAddr (m - 1)

/-- a generic GETSTATUS + sleep round trip (used by the prelude) -/
theorem status_roundtrip {c : Config} {pcS pcA : PC} {v' : View} {s' t' st' : Nat}
    (hx : c.exit = none) (ho : c.out = [])
    (hn : next h c.pc c.resp = (pcS, .request getStatusReq))
    (hr : (c.dev.handle getStatusReq).2 = .bytes (statusReply s' t' st'))
    (hs : Sees h.pageCount s (c.dev.handle getStatusReq).1 v' (t' % 16777216))
    (hn2 : next h pcS (.bytes (statusReply s' t' st')) = (pcA, .sleep (t' % 16777216))) :
    At h s (steps h 2 c) pcA v' 0 := by
  have e1 := step_request hx hn
  have hn2' : next h (step h c).pc (step h c).resp = (pcA, .sleep (t' % 16777216)) := by
    rw [e1]; simp only [hr]; exact hn2
  have hx2 : (step h c).exit = none := by rw [e1]; exact hx
  have e2 := step_sleep hx2 hn2'
  have : steps h 2 c = step h (step h c) := rfl
  rw [this, e2]
  refine ⟨rfl, hx2, ?_, ?_⟩
  · show (step h c).out = []
    rw [e1]; exact ho
  · show Sees h.pageCount s ((step h c).dev.tick (t' % 16777216)) v' 0
    have hd : (step h c).dev = (c.dev.handle getStatusReq).1 := by rw [e1]
    rw [hd]
    simpa using hs.tick (t' % 16777216)

/-- the prelude (dfu.py:238-243): at most six steps lead to the head of the erase loop with the
    device in dfuIDLE, status OK -/
theorem prelude (f₀ : Nat → Cell) (hfit : h.fw.length ≤ pageSize * h.pageCount) :
    Reaches h (Config.init h.pageCount s f₀) 6 fun c => ∃ v, At h s c (.loopErase 0) v 0 ∧ EraseInv f₀ 0 v := by
  have hs0 := init_sees h.pageCount s f₀
  generalize hc0 : Config.init h.pageCount s f₀ = c0
  have hpc0 : c0.pc = .start := by rw [← hc0]; rfl
  have hx0 : c0.exit = none := by rw [← hc0]; rfl
  have ho0 : c0.out = [] := by rw [← hc0]; rfl
  have hd0 : c0.dev = Device.init h.pageCount s f₀ := by rw [← hc0]; rfl
  rw [← hd0] at hs0
  have hn0 : next h c0.pc c0.resp = (.initStatus, .request getStatusReq) := by
    rw [hpc0]; simp [next, Nat.not_lt.mpr hfit]
  by_cases he : s.startErr % 256 = 0
  · -- the device starts in dfuIDLE
    simp only [he, if_true] at hs0
    obtain ⟨t, hr, hs1⟩ := getStatus_idle hs0 rfl (by simp)
    have ha2 := status_roundtrip (pcA := .initSlept 2) hx0 ho0 hn0 hr hs1
      (by simp [next, onStatus, parse_statusReply, DState.code])
    refine ⟨3, by omega, ?_⟩
    have : steps h 3 c0 = step h (steps h 2 c0) := steps_succ' h 2 c0
    rw [this]
    generalize steps h 2 c0 = c2 at ha2
    have hn3 : next h c2.pc c2.resp = (.loopErase 0, .tau) := by rw [ha2.pc]; simp [next, stERROR]
    rw [step_tau ha2.exit hn3]
    exact ⟨_, ⟨rfl, ha2.exit, ha2.out, ha2.dev⟩, ⟨Or.inl rfl, rfl, rfl, rfl, by funext q; simp, rfl, rfl, rfl, rfl⟩⟩
  · -- the device starts in dfuERROR: CLRSTATUS, GETSTATUS again
    simp only [he, if_false] at hs0
    obtain ⟨t, hr, hs1⟩ := getStatus_idle hs0 rfl (by simp)
    have ha2 := status_roundtrip (pcA := .initSlept 10) hx0 ho0 hn0 hr hs1
      (by simp [next, onStatus, parse_statusReply, DState.code])
    refine ⟨6, by omega, ?_⟩
    have : steps h 6 c0 = step h (steps h 2 (step h (steps h 2 c0))) := by
      rw [show (6 : Nat) = 2 + (1 + (2 + 1)) from rfl, steps_add, steps_add, steps_add]; rfl
    rw [this]
    generalize steps h 2 c0 = c2 at ha2
    have hn3 : next h c2.pc c2.resp = (.clrSent, .request clrStatusReq) := by rw [ha2.pc]; simp [next, stERROR]
    obtain ⟨hr3, hs3⟩ := clrStatus_error ha2.dev rfl
    have e3 := step_request ha2.exit hn3
    have hx3 : (step h c2).exit = none := by rw [e3]; exact ha2.exit
    have ho3 : (step h c2).out = [] := by rw [e3]; exact ha2.out
    have hd3 : (step h c2).dev = (c2.dev.handle clrStatusReq).1 := by rw [e3]
    have hn4 : next h (step h c2).pc (step h c2).resp = (.init2Status, .request getStatusReq) := by
      rw [e3]; simp [next, onCount, hr3]
    rw [← hd3] at hs3
    generalize step h c2 = c3 at hx3 ho3 hn4 hs3
    obtain ⟨t4, hr4, hs4⟩ := getStatus_idle hs3 rfl (by simp)
    have ha5 := status_roundtrip (pcA := .init2Slept 2) hx3 ho3 hn4 hr4 hs4
      (by simp [next, onStatus, parse_statusReply, DState.code])
    generalize steps h 2 c3 = c5 at ha5
    have hn6 : next h c5.pc c5.resp = (.loopErase 0, .tau) := by rw [ha5.pc]; simp [next]
    rw [step_tau ha5.exit hn6]
    exact ⟨_, ⟨rfl, ha5.exit, ha5.out, ha5.dev⟩, ⟨Or.inl rfl, rfl, rfl, rfl, by funext q; simp, rfl, rfl, rfl, rfl⟩⟩

/-! ### the erase loop -/

theorem erase_loop (f₀ : Nat → Cell) (hfit : h.pages ≤ h.pageCount) (hsm : h.pageCount ≤ 128)
    {c : Config} {v : View} (ha : At h s c (.loopErase 0) v 0) (hi : EraseInv f₀ 0 v) :
    ∀ m, m ≤ h.pages → (∀ j, j < m → (s.op j).fault % 256 = 0) →
      ∃ v', At h s (steps h (costFrom s 0 m) c) (.loopErase m) v' 0 ∧ EraseInv f₀ m v' := by
  intro m
  induction m with
  | zero => intro _ _; exact ⟨v, by simpa [costFrom, steps] using ha, hi⟩
  | succ m ih =>
    intro hm hf
    obtain ⟨v', ha', hi'⟩ := ih (by omega) (fun j hj => hf j (by omega))
    have hfm : (s.op v'.opIdx).fault % 256 = 0 := by rw [hi'.opIdx]; exact hf m (by omega)
    have := erase_iter ha' (by omega) (by omega) hsm hi'.pending hi'.state hi'.status hfm
    rw [hi'.opIdx] at this
    rw [costFrom_succ_right, steps_add, Nat.zero_add]
    refine ⟨_, this, ⟨Or.inr rfl, hi'.status, rfl, rfl, ?_, ?_, hi'.written, hi'.mon, hi'.ptr⟩⟩
    · funext q
      simp only [setCell, hi'.flash]
      by_cases h1 : q = m
      · simp [h1]
      · by_cases h2 : q < m
        · have : q < m + 1 := by omega
          simp [h1, h2, this]
        · have : ¬ q < m + 1 := by omega
          simp [h1, h2, this]
    · simp [hi'.erased, List.range_succ]

/-- from the exhausted erase loop to the head of the write loop -/
theorem erase_to_write {f₀ : Nat → Cell} {c : Config} {v : View}
    (ha : At h s c (.loopErase h.pages) v 0) (hi : EraseInv f₀ h.pages v) :
    At h s (steps h 1 c) (.loopWrite 0) v 0 ∧ WriteInv h f₀ 0 v := by
  have hn : next h c.pc c.resp = (.loopWrite 0, .tau) := by rw [ha.pc]; simp [next]
  rw [steps_one, step_tau ha.exit hn]
  refine ⟨⟨rfl, ha.exit, ha.out, ha.dev⟩, ⟨hi.state, hi.status, hi.pending, by simp [hi.opIdx], ?_, hi.erased, by simp [hi.written], hi.mon, by simp [hi.ptr, pageAddr]⟩⟩
  rw [hi.flash]; funext q; simp

/-! ### the write loop -/

theorem write_iter {f₀ : Nat → Cell} {c : Config} {v : View} {m : Nat}
    (hfit : h.pages ≤ h.pageCount) (hsm : h.pageCount ≤ 128)
    (ha : At h s c (.loopWrite m) v 0) (hi : WriteInv h f₀ m v) (hm : m < h.pages)
    (hf1 : (s.op (h.pages + 2 * m)).fault % 256 = 0) (hf2 : (s.op (h.pages + 2 * m + 1)).fault % 256 = 0) :
    ∃ v', At h s (steps h (writeCost (s.op (h.pages + 2 * m)) (s.op (h.pages + 2 * m + 1))) c) (.loopWrite (m + 1)) v' 0 ∧
      WriteInv h f₀ (m + 1) v' := by
  have hf1' : (s.op v.opIdx).fault % 256 = 0 := by rw [hi.opIdx]; exact hf1
  have ha1 := write_iter_addr ha hm (by omega) hsm hi.pending hi.state hi.status hf1'
  rw [hi.opIdx] at ha1
  have her : v.flash m = .erased := by rw [hi.flash]; simp [hm]
  have := write_iter_data ha1 (by omega) rfl rfl hi.status rfl (chunk_length hm) her
    (by simpa [hi.opIdx] using hf2)
  have e : writeCost (s.op (h.pages + 2 * m)) (s.op (h.pages + 2 * m + 1)) =
      (2 * (s.op (h.pages + 2 * m)).busy.length + 3) + (2 * (s.op (h.pages + 2 * m + 1)).busy.length + 4) := by
    simp [writeCost]; omega
  rw [e, steps_add]
  refine ⟨_, this, ⟨Or.inr rfl, hi.status, rfl, by show h.pages + 2 * m + 1 + 1 = h.pages + 2 * (m + 1); omega, ?_, hi.erased, by simp [hi.written, List.range_succ], hi.mon, by simp⟩⟩
  funext q
  simp only [setCell, hi.flash]
  by_cases h1 : q = m
  · simp [h1]
  · by_cases h2 : q < m
    · have : q < m + 1 := by omega
      simp [h1, h2, this]
    · have : ¬ q < m + 1 := by omega
      simp [h1, h2, this]

theorem writeCost_le (a b : OpSched) : writeCost a b ≤ opCost a + opCost b := by
  simp [writeCost, opCost]; omega

theorem write_loop (f₀ : Nat → Cell) (hfit : h.pages ≤ h.pageCount) (hsm : h.pageCount ≤ 128)
    {c : Config} {v : View} (ha : At h s c (.loopWrite 0) v 0) (hi : WriteInv h f₀ 0 v) :
    ∀ m, m ≤ h.pages → (∀ j, j < 2 * m → (s.op (h.pages + j)).fault % 256 = 0) →
      Reaches h c (costFrom s h.pages (2 * m)) fun c' => ∃ v', At h s c' (.loopWrite m) v' 0 ∧ WriteInv h f₀ m v' := by
  intro m
  induction m with
  | zero => intro _ _; exact ⟨0, by omega, v, by simpa [steps] using ha, hi⟩
  | succ m ih =>
    intro hm hf
    have h1 := ih (by omega) (fun j hj => hf j (by omega))
    have e : costFrom s h.pages (2 * (m + 1)) =
        costFrom s h.pages (2 * m) + (opCost (s.op (h.pages + 2 * m)) + opCost (s.op (h.pages + 2 * m + 1))) := by
      rw [show 2 * (m + 1) = 2 * m + 1 + 1 by omega, costFrom_succ_right, costFrom_succ_right]
      have : h.pages + (2 * m + 1) = h.pages + 2 * m + 1 := by omega
      rw [this]; omega
    rw [e]
    refine h1.trans ?_
    intro c' ⟨v', ha', hi'⟩
    obtain ⟨v'', ha'', hi''⟩ := write_iter hfit hsm ha' hi' (by omega) (hf (2 * m) (by omega))
      (by have := hf (2 * m + 1) (by omega); rwa [← Nat.add_assoc] at this)
    exact ⟨_, writeCost_le _ _, v'', ha'', hi''⟩

/-- the epilogue: print 'done!' and return -/
theorem epilogue {c : Config} {v : View}
    (ha : At h s c (.loopWrite h.pages) v 0) :
    (steps h 2 c).exit = some (0, .ok) ∧ (steps h 2 c).out = [.done] ∧ Sees h.pageCount s (steps h 2 c).dev v 0 := by
  have hn : next h c.pc c.resp = (.finishing, .print .done) := by rw [ha.pc]; simp [next]
  have e1 := step_print ha.exit hn
  have hn2 : next h (step h c).pc (step h c).resp = (.halted, .exit 0 .ok) := by rw [e1]; simp [next]
  have hx2 : (step h c).exit = none := by rw [e1]; exact ha.exit
  have : steps h 2 c = step h (step h c) := rfl
  rw [this, step_exit hx2 hn2]
  refine ⟨rfl, ?_, ?_⟩
  · show (step h c).out = [.done]
    rw [e1]; simp [ha.out]
  · show Sees h.pageCount s (step h c).dev v 0
    rw [e1]; exact ha.dev

end BB.Dfu
