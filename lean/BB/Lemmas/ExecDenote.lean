/-
  BB.Lemmas.ExecDenote — from the assembler model's instruction values to the specification's.

  `resolveWith ev ins`   : `resolve_immediates` on one instruction, the evaluation abstracted as
                           `ev : Imm → Option Int` (an environment, a position, the hooks).
  `denote32I / denote16I`: the `Instr32` / `CInstr` a RESOLVED model instruction names — C01's / C02's
                           `denote32` / `denote16` (arguments → operands: registers by number, immediates
                           by value) followed by the specification's `intent32` / `intentOf16`.
  `encode_denotes32/16`  : the word the encoder emits for it decodes (specification decoder) to it.
  `bridge_*`             : closed forms of `denote32I` for the I/R/B/J/U/fence shapes.
-/
import BB.Props.C01
import BB.Props.C02
import BB.Passes
namespace BB.Lemmas
open BB BB.Spec
open BB.Props.C01 (denote32 denoteReg denoteInt)
open BB.Props.C02 (denote16 rowOf)

/-- `resolve_immediates` on one instruction: the immediate (if the class has one) is replaced by its
    value under `ev` -/
def resolveWith (ev : Imm → Option Int) (ins : Instr) : Option Instr :=
  match ins.imm? with
  | none => some ins
  | some imm => (ev imm).map (fun v => ins.setImm (.value v))

/-- the 32-bit instruction a resolved model instruction names -/
def denote32I (ins : Instr) : Option Instr32 :=
  match instrTable.lookup ins.name with
  | none => none
  | some k =>
    match ins.args with
    | none => none
    | some args =>
      match denote32 k args with
      | none => none
      | some ops => intent32 ins.name ops

/-- the RVC instruction a resolved compressed model instruction names -/
def denote16I (ins : Instr) : Option CInstr :=
  match classOf16 ins.name with
  | none => none
  | some c =>
    match ins.args with
    | none => none
    | some args =>
      match denote16 (rowOf c) args with
      | none => none
      | some ops => intentOf16 c ops

/-- **what is emitted is what is named (32-bit)**: if the encoder accepts a resolved instruction of
    a 32-bit table row, the emitted word decodes to the instruction `denote32I` says it names -/
theorem encode_denotes32 {ins : Instr} {k : EncKind} {args : List Arg} {w : Nat}
    (hk : instrTable.lookup ins.name = some k) (hs : k.size = 4) (ha : ins.args = some args)
    (he : encode ins.name args = .ok w) :
    ∃ i, denote32I ins = some i ∧ decode32 w = some i ∧ w < 2 ^ 32 := by
  obtain ⟨ops, hd, _, hlt, hsome, hdec⟩ := BB.Props.C01.encode32_sound ins.name k hk hs args w he
  cases hi : intent32 ins.name ops with
  | none => rw [hi] at hsome; simp at hsome
  | some i =>
    refine ⟨i, ?_, ?_, hlt⟩
    · unfold denote32I; simp only [hk, ha, hd, hi]
    · rw [hdec, hi]

/-- **what is emitted is what is named (16-bit)** -/
theorem encode_denotes16 {ins : Instr} {c : CMn} {args : List Arg} {w : Nat}
    (hc : classOf16 ins.name = some c) (ha : ins.args = some args)
    (he : encode ins.name args = .ok w) :
    ∃ ci, denote16I ins = some ci ∧ decode16 w = some ci ∧ w < 65536 := by
  obtain ⟨ops, hd, _, hlt, hsome, hdec⟩ := BB.Props.C02.encode16_sound ins.name c hc args w he
  simp only [intent16, hc] at hsome hdec
  cases hi : intentOf16 c ops with
  | none => rw [hi] at hsome; simp at hsome
  | some ci =>
    refine ⟨ci, ?_, ?_, hlt⟩
    · unfold denote16I; simp only [hc, ha, hd, hi]
    · rw [hdec, hi]

/-! ### closed forms of `denote32I` for the shapes the pseudo-instruction expansions use -/

theorem denoteReg_of {x : RegOp} {n : Nat} (h : lookupRegister x = some n) : denoteReg x = some (.reg n) := by
  simp [denoteReg, h]

theorem bridge_i {name : String} {op f3 : Nat} {o : IOp} {rd rs1 : RegOp} {a b : Nat} (v : Int) (aj : Bool)
    (hk : instrTable.lookup name = some (.i op f3)) (hc : classOf name = some (.i o))
    (hrd : lookupRegister rd = some a) (hrs : lookupRegister rs1 = some b) :
    denote32I (.i name rd rs1 (.value v) aj) = some (.i o a b v) := by
  simp only [denote32I, Instr.name, Instr.args, hk, denote32, denoteReg_of hrd, denoteReg_of hrs,
    bind, Option.bind, pure, intent32, hc, intentOf]

theorem bridge_ij {name : String} {op f3 : Nat} {rd rs1 : RegOp} {a b : Nat} (v : Int) (aj : Bool)
    (hk : instrTable.lookup name = some (.ij op f3)) (hc : classOf name = some .jalr)
    (hrd : lookupRegister rd = some a) (hrs : lookupRegister rs1 = some b) :
    denote32I (.i name rd rs1 (.value v) aj) = some (.jalr a b v) := by
  simp only [denote32I, Instr.name, Instr.args, hk, denote32, denoteReg_of hrd, denoteReg_of hrs,
    bind, Option.bind, pure, intent32, hc, intentOf]

theorem bridge_ld {name : String} {op f3 : Nat} {o : LdOp} {rd rs1 : RegOp} {a b : Nat} (v : Int) (aj : Bool)
    (hk : instrTable.lookup name = some (.i op f3)) (hc : classOf name = some (.ld o))
    (hrd : lookupRegister rd = some a) (hrs : lookupRegister rs1 = some b) :
    denote32I (.i name rd rs1 (.value v) aj) = some (.load o a b v) := by
  simp only [denote32I, Instr.name, Instr.args, hk, denote32, denoteReg_of hrd, denoteReg_of hrs,
    bind, Option.bind, pure, intent32, hc, intentOf]

theorem bridge_r {name : String} {op f3 f7 : Nat} {o : ROp} {rd rs1 rs2 : RegOp} {a b c : Nat}
    (hk : instrTable.lookup name = some (.r op f3 f7)) (hc : classOf name = some (.r o))
    (hrd : lookupRegister rd = some a) (hrs1 : lookupRegister rs1 = some b)
    (hrs2 : lookupRegister rs2 = some c) :
    denote32I (.r name rd rs1 rs2) = some (.r o a b c) := by
  simp only [denote32I, Instr.name, Instr.args, hk, denote32, denoteReg_of hrd, denoteReg_of hrs1,
    denoteReg_of hrs2, bind, Option.bind, pure, intent32, hc, intentOf]

theorem bridge_sh {name : String} {op f3 f7 : Nat} {o : ShOp} {rd rs1 rs2 : RegOp} {a b c : Nat}
    (hk : instrTable.lookup name = some (.r op f3 f7)) (hc : classOf name = some (.sh o))
    (hrd : lookupRegister rd = some a) (hrs1 : lookupRegister rs1 = some b)
    (hrs2 : lookupRegister rs2 = some c) :
    denote32I (.r name rd rs1 rs2) = some (.sh o a b c) := by
  simp only [denote32I, Instr.name, Instr.args, hk, denote32, denoteReg_of hrd, denoteReg_of hrs1,
    denoteReg_of hrs2, bind, Option.bind, pure, intent32, hc, intentOf]

theorem bridge_s {name : String} {op f3 : Nat} {o : StOp} {rs1 rs2 : RegOp} {a b : Nat} (v : Int)
    (hk : instrTable.lookup name = some (.s op f3)) (hc : classOf name = some (.st o))
    (h1 : lookupRegister rs1 = some a) (h2 : lookupRegister rs2 = some b) :
    denote32I (.s name rs1 rs2 (.value v)) = some (.store o a b v) := by
  simp only [denote32I, Instr.name, Instr.args, hk, denote32, denoteReg_of h1, denoteReg_of h2,
    bind, Option.bind, pure, intent32, hc, intentOf]

theorem bridge_b {name : String} {op f3 : Nat} {o : BrOp} {rs1 rs2 : RegOp} {a b : Nat} (v : Int)
    (hk : instrTable.lookup name = some (.b op f3)) (hc : classOf name = some (.br o))
    (h1 : lookupRegister rs1 = some a) (h2 : lookupRegister rs2 = some b) :
    denote32I (.b name rs1 rs2 (.value v)) = some (.branch o a b v) := by
  simp only [denote32I, Instr.name, Instr.args, hk, denote32, denoteReg_of h1, denoteReg_of h2,
    bind, Option.bind, pure, intent32, hc, intentOf]

theorem bridge_j {name : String} {op : Nat} {rd : RegOp} {a : Nat} (v : Int)
    (hk : instrTable.lookup name = some (.j op)) (hc : classOf name = some .jal)
    (hrd : lookupRegister rd = some a) :
    denote32I (.j name rd (.value v)) = some (.jal a v) := by
  simp only [denote32I, Instr.name, Instr.args, hk, denote32, denoteReg_of hrd,
    bind, Option.bind, pure, intent32, hc, intentOf]

theorem bridge_lui {name : String} {op : Nat} {rd : RegOp} {a : Nat} (v : Int)
    (hk : instrTable.lookup name = some (.u op)) (hc : classOf name = some .lui)
    (hrd : lookupRegister rd = some a) :
    denote32I (.u name rd (.value v)) = some (.lui a (v % 1048576).toNat) := by
  simp only [denote32I, Instr.name, Instr.args, hk, denote32, denoteReg_of hrd,
    bind, Option.bind, pure, intent32, hc, intentOf]

theorem bridge_auipc {name : String} {op : Nat} {rd : RegOp} {a : Nat} (v : Int)
    (hk : instrTable.lookup name = some (.u op)) (hc : classOf name = some .auipc)
    (hrd : lookupRegister rd = some a) :
    denote32I (.u name rd (.value v)) = some (.auipc a (v % 1048576).toNat) := by
  simp only [denote32I, Instr.name, Instr.args, hk, denote32, denoteReg_of hrd,
    bind, Option.bind, pure, intent32, hc, intentOf]

theorem bridge_ie {name : String} {op f3 imm : Nat} {i : Instr32}
    (hk : instrTable.lookup name = some (.ie op f3 imm)) (hi : intent32 name [] = some i) :
    denote32I (.ie name) = some i := by
  simp only [denote32I, Instr.name, Instr.args, hk, denote32, hi]

/-- the `fence` pseudo-instruction's `fence 15, 15` (iorw, iorw) -/
theorem bridge_fence_full : denote32I (.fence "fence" (.int 15) (.int 15)) = some (.fence 0 15 15 0 0) := by
  decide

end BB.Lemmas
