/-
  BB.Lemmas.NearAlign — the two pseudo-instruction passes (plain run, -c run) read at one source
  position: the outputs of the walks over corresponding input PREFIXES are `Corr`-related
  (`corr_prefix`).  The whole-list `Corr` (from the lockstep simulation) is used only to exclude the one
  impossible combination, "near without -c, far with it".
-/
import BB.Lemmas.NearPrefix
set_option linter.unusedSimpArgs false
set_option linter.unusedVariables false
namespace BB.Lemmas
open BB BB.Spec
open BB.Props.C05 (expand_call expand_tail)

theorem snoc_ind {α : Type} {P : List α → Prop} (h0 : P []) (hs : ∀ A s, P A → P (A ++ [s])) : ∀ A, P A := by
  intro A
  rw [← List.reverse_reverse A]
  induction A.reverse with
  | nil => exact h0
  | cons x t ih => simpa using hs _ x ih

variable {H : Hooks} {constants : Dict}

theorem IWd.append_inv {a : List Item} : ∀ {b X : List Item}, IWd H constants (a ++ b) X →
    ∃ a' b', X = a' ++ b' ∧ IWd H constants a a' ∧ IWd H constants b b' := by
  induction a with
  | nil => intro b X h; exact ⟨[], X, rfl, .nil, h⟩
  | cons x a ih =>
    intro b X h
    rw [List.cons_append] at h
    cases h with
    | same _ hr =>
      obtain ⟨a', b', rfl, h1, h2⟩ := ih hr
      exact ⟨x :: a', b', rfl, .same x h1, h2⟩
    | comp line ins cf c preds p L d hr =>
      obtain ⟨a', b', rfl, e1, e2⟩ := ih hr
      exact ⟨.instr line cf :: a', b', rfl, .comp line ins cf c preds p L d e1, e2⟩

/-- the two expansions of one call / tail at two states, all four combinations -/
theorem pseudo_shapes4 (hoff : OffsetHook H) {line : Line} {name : String}
    {args : List String} {p0 p1 : Int} {L0 L1 : Dict} {repl0 repl1 : List Item} {n0 n1 : Int}
    (h0 : pseudoBody H constants (.pseudo line name args) p0 L0 = .ok (repl0, n0))
    (h1 : pseudoBody H constants (.pseudo line name args) p1 L1 = .ok (repl1, n1))
    (hli : pseudoKind name = some .li → ∀ imm, H.parseImm args.tail line = .ok imm →
      imm.eval H (chainGet constants L0) line p0 = imm.eval H (chainGet constants L1) line p1) :
    repl1 = repl0 ∨
    (∃ rd rA imm, repl0 = [.instr line (.u "auipc" rA (.hi imm)), .instr line (.i "jalr" rd rA (.lo imm) true)] ∧
      repl1 = [.instr line (.j "jal" rd imm)]) ∨
    (∃ rd rA imm, repl0 = [.instr line (.j "jal" rd imm)] ∧
      repl1 = [.instr line (.u "auipc" rA (.hi imm)), .instr line (.i "jalr" rd rA (.lo imm) true)]) := by
  -- is this a call / tail that is near at the first state and far at the second?
  by_cases hbad : ∃ ref imm v0 v1, (pseudoKind name = some .call ∨ pseudoKind name = some .tail) ∧ args = [ref] ∧
      H.parseImm ["%offset", ref] line = .ok imm ∧
      imm.eval H (chainGet constants L0) line p0 = .ok v0 ∧ imm.eval H (chainGet constants L1) line p1 = .ok v1 ∧
      (-1048576 ≤ cI32 v0 ∧ cI32 v0 ≤ 1048575) ∧ ¬ (-1048576 ≤ cI32 v1 ∧ cI32 v1 ≤ 1048575)
  · obtain ⟨ref, imm, v0, v1, hk, rfl, hp, hv0, hv1, c0, c1⟩ := hbad
    right; right
    simp only [pseudoBody, bind, Except.bind] at h0 h1
    rcases hk with hk | hk
    · simp only [expandPseudo, hk, expand_call H _ line _ ref imm _ hp hv0, expand_call H _ line _ ref imm _ hp hv1,
        if_pos c0, if_neg c1, pure, Except.pure, Except.ok.injEq, Prod.mk.injEq] at h0 h1
      exact ⟨.str "x1", .str "x1", imm, by rw [← h0.1]; rfl, by rw [← h1.1]; rfl⟩
    · simp only [expandPseudo, hk, expand_tail H _ line _ ref imm _ hp hv0, expand_tail H _ line _ ref imm _ hp hv1,
        if_pos c0, if_neg c1, pure, Except.pure, Except.ok.injEq, Prod.mk.injEq] at h0 h1
      exact ⟨.str "x0", .str "x6", imm, by rw [← h0.1]; rfl, by rw [← h1.1]; rfl⟩
  · have hct : (pseudoKind name = some .call ∨ pseudoKind name = some .tail) → ∀ ref imm v0 v1, args = [ref] →
        H.parseImm ["%offset", ref] line = .ok imm →
        imm.eval H (chainGet constants L0) line p0 = .ok v0 → imm.eval H (chainGet constants L1) line p1 = .ok v1 →
        (-1048576 ≤ cI32 v0 ∧ cI32 v0 ≤ 1048575) → (-1048576 ≤ cI32 v1 ∧ cI32 v1 ≤ 1048575) := by
      intro hk ref imm v0 v1 ha hp hv0 hv1 c0
      by_contra c1
      exact hbad ⟨ref, imm, v0, v1, hk, ha, hp, hv0, hv1, c0, c1⟩
    rcases pseudo_shapes hoff h0 h1 hli hct with h | h
    · exact Or.inl h
    · exact Or.inr (Or.inl h)

theorem walk_single_label {f : Item → Int → Dict → Except Err (List Item × Int)} {l : Line} {n : String} {p : Int} {L : Dict}
    {r : List Item} {L' : Dict} (h : walk f [.label l n] p L = .ok (r, L')) : r = [.label l n] := by
  simp only [walk, bind, Except.bind, pure, Except.pure, Except.ok.injEq, Prod.mk.injEq] at h
  exact h.1.symm

theorem walk_single {f : Item → Int → Dict → Except Err (List Item × Int)} {s : Item} (hnl : ∀ l n, s ≠ .label l n)
    {p : Int} {L : Dict} {r : List Item} {L' : Dict} (h : walk f [s] p L = .ok (r, L')) :
    ∃ n, f s p L = .ok (r, n) := by
  rw [walk_cons_of_not_label hnl] at h
  simp only [bind, Except.bind] at h
  cases hb : f s p L with
  | error e => simp [hb] at h
  | ok rn =>
    obtain ⟨repl, n⟩ := rn
    simp only [hb, walk, pure, Except.pure, Except.ok.injEq, Prod.mk.injEq, List.append_nil] at h
    exact ⟨n, by rw [← h.1]⟩

/-- **the two pseudo-instruction passes at one source position** -/
theorem corr_prefix (hoff : OffsetHook H) {G1 B3 A4 B4 : List Item} {la la4 lb3 lb4 : Dict}
    (hiw : IWd H constants G1 B3)
    (w0 : walk (pseudoBody H constants) G1 0 la = .ok (A4, la4))
    (w1 : walk (pseudoBody H constants) B3 0 lb3 = .ok (B4, lb4))
    (hcorr : Corr H constants A4 B4)
    (hli : ∀ line name args, Item.pseudo line name args ∈ G1 → pseudoKind name = some .li →
      ∀ imm, H.parseImm args.tail line = .ok imm → ImmLabelFree H constants imm)
    (hfix : ∀ l i, Item.instr l i ∈ G1 → i.mapRegs (aliasReg constants) = i) :
    ∀ A : List Item, ∀ (R A3 R3 oA0 oA1 : List Item) (L0 L1 : Dict), G1 = A ++ R → B3 = A3 ++ R3 → IWd H constants A A3 →
      walk (pseudoBody H constants) A 0 la = .ok (oA0, L0) → walk (pseudoBody H constants) A3 0 lb3 = .ok (oA1, L1) →
      Corr H constants oA0 oA1 := by
  intro A
  induction A using snoc_ind with
  | h0 =>
    intro R A3 R3 oA0 oA1 L0 L1 _ _ hi h0 h1
    cases hi
    simp only [walk, Except.ok.injEq, Prod.mk.injEq] at h0 h1
    rw [← h0.1, ← h1.1]; exact .nil
  | hs A s ih =>
    intro R A3f R3 oA0 oA1 L0 L1 eG eB hi h0 h1
    obtain ⟨A3, s3l, rfl, hiA, his⟩ := IWd.append_inv hi
    -- the walks over the prefix and over the one item
    obtain ⟨oA0', L0', r0, hw0, hs0, rfl⟩ := walk_append_inv A [s] 0 la oA0 L0 h0
    obtain ⟨oA1', L1', r1, hw1, hs1, rfl⟩ := walk_append_inv A3 s3l 0 lb3 oA1 L1 h1
    have ihA := ih (s :: R) A3 (s3l ++ R3) oA0' oA1' L0' L1' (by rw [eG]; simp) (by rw [eB]; simp) hiA hw0 hw1
    refine ihA.append ?_
    have hsmem : s ∈ G1 := by rw [eG]; simp
    -- the global walks, cut at the same places
    have hglob : ∃ rest0 rest1, Corr H constants (r0 ++ rest0) (r1 ++ rest1) := by
      rw [eG, List.append_assoc] at w0
      rw [eB, List.append_assoc] at w1
      obtain ⟨oA0'', L0'', out0, g1, g2, rfl⟩ := walk_append_inv A ([s] ++ R) 0 la A4 la4 w0
      obtain ⟨oA1'', L1'', out1, k1, k2, rfl⟩ := walk_append_inv A3 (s3l ++ R3) 0 lb3 B4 lb4 w1
      rw [hw0] at g1
      rw [hw1] at k1
      cases g1; cases k1
      obtain ⟨r0', _, rest0, g3, _, rfl⟩ := walk_append_inv [s] R _ _ out0 la4 g2
      obtain ⟨r1', _, rest1, k3, _, rfl⟩ := walk_append_inv s3l R3 _ _ out1 lb4 k2
      rw [hs0] at g3
      rw [hs1] at k3
      cases g3; cases k3
      exact ⟨rest0, rest1, ihA.cancel_left hcorr⟩
    obtain ⟨rest0, rest1, hg⟩ := hglob
    cases his with
    | same _ hnil =>
      cases hnil
      by_cases hl : ∃ l n, s = .label l n
      · obtain ⟨l, n, rfl⟩ := hl
        rw [walk_single_label hs0, walk_single_label hs1]
        exact .step (.same _) .nil
      · have hnl : ∀ l n, s ≠ .label l n := fun l n e => hl ⟨l, n, e⟩
        obtain ⟨n0, hb0⟩ := walk_single hnl hs0
        obtain ⟨n1, hb1⟩ := walk_single hnl hs1
        by_cases hp : ∃ line name args, s = .pseudo line name args
        · obtain ⟨line, name, args, rfl⟩ := hp
          have hli' : pseudoKind name = some .li → ∀ imm, H.parseImm args.tail line = .ok imm →
              imm.eval H (chainGet constants L0') line (0 + sizeSum oA0') = imm.eval H (chainGet constants L1') line (0 + sizeSum oA1') :=
            fun hk imm hpi => hli line name args hsmem hk imm hpi _ _ _ _ _
          rcases pseudo_shapes4 hoff hb0 hb1 hli' with e | ⟨rd, rA, imm, e0, e1⟩ | ⟨rd, rA, imm, e0, e1⟩
          · rw [e]; exact Corr.same_append .nil r0 |> fun h => by simpa using h
          · rw [e0, e1]; exact .near line rd rA imm (.same _) .nil
          · -- near without -c, far with it: the whole-list correspondence forbids it
            exfalso
            rw [e0, e1] at hg
            simp only [List.cons_append, List.nil_append] at hg
            rcases Corr.head_cases hg with ⟨hs', _⟩ | ⟨_, _, _, _, _, ea, _⟩
            · exact not_auipc_and_jal (.same _) hs'
            · cases ea
        · have hnp : ∀ l n a, s ≠ .pseudo l n a := fun l n a e => hp ⟨l, n, a, e⟩
          obtain ⟨rfl, _⟩ := keep_pseudoBody hnp hb0
          obtain ⟨rfl, _⟩ := keep_pseudoBody hnp hb1
          exact .step (.same _) .nil
    | comp line ins cf c preds p L d hnil =>
      cases hnil
      obtain ⟨n0, hb0⟩ := walk_single (by intro l n e; cases e) hs0
      obtain ⟨n1, hb1⟩ := walk_single (by intro l n e; cases e) hs1
      obtain ⟨rfl, _⟩ := keep_pseudoBody (by intro l n a e; cases e) hb0
      obtain ⟨rfl, _⟩ := keep_pseudoBody (by intro l n a e; cases e) hb1
      exact .step (.comp line ins cf c preds p L d (hfix line ins hsmem)) .nil

end BB.Lemmas
