/-
  BB.Lemmas.Pipeline — running the passes on the ghost list (labels kept in place) and on the real
  list (labels removed by resolve_labels) is the same thing; chaining `walk_layout` through
  assemble().
-/
import BB.Lemmas.Bodies
namespace BB.Lemmas
open BB

def Item.isLabel : Item → Bool
  | .label .. => true
  | _ => false

/-- what resolve_labels leaves: the list without its markers -/
def strip (G : List Item) : List Item := G.filter (fun it => !Item.isLabel it)

theorem strip_label (line : Line) (n : String) (G : List Item) : strip (.label line n :: G) = strip G := by
  simp [strip, Item.isLabel]

theorem strip_cons_of_not_label {it : Item} (h : ∀ line n, it ≠ .label line n) (G : List Item) :
    strip (it :: G) = it :: strip G := by
  cases it <;> first | rfl | exact absurd rfl (h _ _)

theorem strip_append (a b : List Item) : strip (a ++ b) = strip a ++ strip b := by
  simp [strip]

theorem strip_noLabel {a : List Item} (h : NoLabel a) : strip a = a := by
  induction a with
  | nil => rfl
  | cons it t ih =>
    have h1 := h it List.mem_cons_self
    rw [strip_cons_of_not_label h1, ih (fun x hx => h x (List.mem_cons_of_mem _ hx))]

theorem sizeE_ok {it : Item} {v : Int} (h : it.sizeE = .ok v) : it.sizeD = v := by
  unfold Item.sizeE at h
  unfold Item.sizeD
  cases hs : it.size? with
  | some n => simp [hs] at h ⊢; exact h
  | none =>
    simp only [hs] at h
    cases it <;> simp at h

/-! ### resolve_labels computes the layout of its input -/

theorem resolveLabelsAux_spec (G : List Item) (p : Int) (labels : Dict) (defined : List String)
    (out : List Item) (labels' : Dict)
    (h : resolveLabelsAux G p labels defined = .ok (out, labels')) :
    out = strip G ∧ (labelNames G).Nodup ∧ (∀ n ∈ labelNames G, n ∉ defined) ∧
    (∀ ℓ v, labelPos G p ℓ = some v → labels'.get ℓ = some v) ∧
    (∀ ℓ, ℓ ∉ labelNames G → labels'.get ℓ = labels.get ℓ) := by
  induction G generalizing p labels defined out labels' with
  | nil =>
    simp only [resolveLabelsAux, Except.ok.injEq, Prod.mk.injEq] at h
    obtain ⟨rfl, rfl⟩ := h
    exact ⟨rfl, List.nodup_nil, fun _ hn => by simp [labelNames] at hn,
      fun ℓ v hv => by simp [labelPos] at hv, fun _ _ => rfl⟩
  | cons it rest ih =>
    by_cases hlab : ∃ line nm, it = .label line nm
    · obtain ⟨line, nm, rfl⟩ := hlab
      simp only [resolveLabelsAux] at h
      split at h
      · simp at h
      · rename_i hdef
        obtain ⟨i1, i2, i3, i4, i5⟩ := ih p (labels.set nm p) (nm :: defined) out labels' h
        have hnotin : nm ∉ labelNames rest := fun hm => by
          have := i3 nm hm; simp at this
        refine ⟨by rw [strip_label]; exact i1, ?_, ?_, ?_, ?_⟩
        · simp only [labelNames, List.nodup_cons]; exact ⟨hnotin, i2⟩
        · intro n hn
          simp only [labelNames, List.mem_cons] at hn
          rcases hn with rfl | hn
          · simpa using hdef
          · have := i3 n hn
            simp only [List.mem_cons, not_or] at this
            exact this.2
        · intro ℓ v hv
          simp only [labelPos] at hv
          split at hv
          · rename_i heq; subst heq
            simp only [Option.some.injEq] at hv; subst hv
            rw [i5 nm hnotin, Dict.get_set]; simp
          · exact i4 ℓ v hv
        · intro ℓ hℓ
          simp only [labelNames, List.mem_cons, not_or] at hℓ
          rw [i5 ℓ hℓ.2, Dict.get_set]
          simp [hℓ.1]
    · have hnl : ∀ line nm, it ≠ .label line nm := fun line nm hh => hlab ⟨line, nm, hh⟩
      have hstep : resolveLabelsAux (it :: rest) p labels defined = (do
          let sz ← it.sizeE
          let (o, l) ← resolveLabelsAux rest (p + sz) labels defined
          pure (it :: o, l)) := by
        cases it <;> first | rfl | exact absurd rfl (hnl _ _)
      rw [hstep] at h
      simp only [bind, Except.bind] at h
      cases hs : it.sizeE with
      | error e => simp [hs] at h
      | ok sz =>
        simp only [hs] at h
        cases hr : resolveLabelsAux rest (p + sz) labels defined with
        | error e => simp [hr] at h
        | ok res =>
          obtain ⟨o, l⟩ := res
          simp only [hr, pure, Except.pure, Except.ok.injEq, Prod.mk.injEq] at h
          obtain ⟨rfl, rfl⟩ := h
          obtain ⟨i1, i2, i3, i4, i5⟩ := ih (p + sz) labels defined o _ hr
          have hnames : labelNames (it :: rest) = labelNames rest := by
            cases it <;> first | rfl | exact absurd rfl (hnl _ _)
          have hpos : ∀ ℓ, labelPos (it :: rest) p ℓ = labelPos rest (p + it.sizeD) ℓ := by
            intro ℓ; cases it <;> first | rfl | exact absurd rfl (hnl _ _)
          rw [hnames]
          refine ⟨by rw [strip_cons_of_not_label hnl, i1], i2, i3, ?_, i5⟩
          intro ℓ v hv
          rw [hpos, sizeE_ok hs] at hv
          exact i4 ℓ v hv

/-- every non-marker item of a list resolve_labels accepted has a defined size -/
theorem resolveLabelsAux_sizes (G : List Item) (p : Int) (labels : Dict) (defined : List String)
    (out : List Item) (labels' : Dict)
    (h : resolveLabelsAux G p labels defined = .ok (out, labels')) :
    ∀ it ∈ G, ∃ v, it.sizeE = .ok v := by
  induction G generalizing p labels defined out labels' with
  | nil => intro it hit; simp at hit
  | cons it rest ih =>
    by_cases hlab : ∃ line nm, it = .label line nm
    · obtain ⟨line, nm, rfl⟩ := hlab
      simp only [resolveLabelsAux] at h
      split at h
      · simp at h
      · intro x hx
        simp only [List.mem_cons] at hx
        rcases hx with rfl | hx
        · exact ⟨0, rfl⟩
        · exact ih _ _ _ _ _ h x hx
    · have hnl : ∀ line nm, it ≠ .label line nm := fun line nm hh => hlab ⟨line, nm, hh⟩
      have hstep : resolveLabelsAux (it :: rest) p labels defined = (do
          let sz ← it.sizeE
          let (o, l) ← resolveLabelsAux rest (p + sz) labels defined
          pure (it :: o, l)) := by
        cases it <;> first | rfl | exact absurd rfl (hnl _ _)
      rw [hstep] at h
      simp only [bind, Except.bind] at h
      cases hs : it.sizeE with
      | error e => simp [hs] at h
      | ok sz =>
        simp only [hs] at h
        cases hr : resolveLabelsAux rest (p + sz) labels defined with
        | error e => simp [hr] at h
        | ok res =>
          intro x hx
          simp only [List.mem_cons] at hx
          rcases hx with rfl | hx
          · exact ⟨sz, hs⟩
          · obtain ⟨o, l⟩ := res
            exact ih _ _ _ _ _ hr x hx

/-! ### the real pass is the ghost pass with the markers removed -/

theorem walk_strip {f : Item → Int → Dict → Except Err (List Item × Int)} (hf : BodyOK f)
    (G : List Item) (hnn : NonNeg G) (p : Int) (labels : Dict) (out : List Item) (labels' : Dict)
    (h : walk f (strip G) p labels = .ok (out, labels')) :
    ∃ G', walk f G p labels = .ok (G', labels') ∧ strip G' = out := by
  induction G generalizing p labels out labels' with
  | nil =>
    simp only [strip, List.filter_nil, walk, Except.ok.injEq, Prod.mk.injEq] at h
    obtain ⟨rfl, rfl⟩ := h
    exact ⟨[], rfl, rfl⟩
  | cons it rest ih =>
    have hnnrest : NonNeg rest := fun x hx => hnn x (List.mem_cons_of_mem _ hx)
    by_cases hlab : ∃ line nm, it = .label line nm
    · obtain ⟨line, nm, rfl⟩ := hlab
      rw [strip_label] at h
      obtain ⟨G', hw, hs⟩ := ih hnnrest p labels out labels' h
      refine ⟨.label line nm :: G', ?_, by rw [strip_label]; exact hs⟩
      simp only [walk, bind, Except.bind, hw, pure, Except.pure]
    · have hnl : ∀ line nm, it ≠ .label line nm := fun line nm hh => hlab ⟨line, nm, hh⟩
      have hsz := hnn it List.mem_cons_self
      rw [strip_cons_of_not_label hnl] at h
      have hwalk : ∀ L : List Item, walk f (it :: L) p labels = (do
          let (repl, n) ← f it p labels
          let (o, l) ← walk f L (p + sizeSum repl) (labels.shiftAbove p n)
          pure (repl ++ o, l)) := by
        intro L; cases it <;> first | rfl | exact absurd rfl (hnl _ _)
      rw [hwalk] at h
      simp only [bind, Except.bind] at h
      cases hfb : f it p labels with
      | error e => simp [hfb] at h
      | ok fb =>
        obtain ⟨repl, n⟩ := fb
        simp only [hfb] at h
        cases hr : walk f (strip rest) (p + sizeSum repl) (labels.shiftAbove p n) with
        | error e => simp [hr] at h
        | ok res =>
          obtain ⟨o, l⟩ := res
          simp only [hr, pure, Except.pure, Except.ok.injEq, Prod.mk.injEq] at h
          obtain ⟨rfl, rfl⟩ := h
          obtain ⟨G', hw, hs⟩ := ih hnnrest _ _ o _ hr
          obtain ⟨b1, _, _, _, _⟩ := hf.ok it p labels repl n hnl hsz hfb
          refine ⟨repl ++ G', ?_, ?_⟩
          · rw [hwalk]; simp only [bind, Except.bind, hfb, hw, pure, Except.pure]
          · rw [strip_append, strip_noLabel b1, hs]

/-! ### resolve_register_aliases does not touch the layout -/

def aliasesG (G : List Item) (constants : Dict) : List Item := resolveRegisterAliases G constants

theorem mapRegs_isCompressed (f : RegOp → RegOp) (ins : Instr) :
    (ins.mapRegs f).isCompressed = ins.isCompressed := by
  cases ins <;> rfl

theorem aliasItem_sizeD (constants : Dict) (it : Item) :
    (match it with
      | .instr line ins => Item.instr line (ins.mapRegs (aliasReg constants))
      | other => other).sizeD = it.sizeD := by
  cases it <;> try rfl
  simp [Item.sizeD, Item.size?, Instr.size, mapRegs_isCompressed]

theorem aliases_labelPos (G : List Item) (constants : Dict) (p : Int) (ℓ : String) :
    labelPos (resolveRegisterAliases G constants) p ℓ = labelPos G p ℓ := by
  induction G generalizing p with
  | nil => rfl
  | cons it rest ih =>
    cases it with
    | label line n =>
      simp only [resolveRegisterAliases, List.map_cons, labelPos] at ih ⊢
      split
      · rfl
      · exact ih p
    | instr line ins =>
      simp only [resolveRegisterAliases, List.map_cons, labelPos] at ih ⊢
      have : (Item.instr line (ins.mapRegs (aliasReg constants))).sizeD = (Item.instr line ins).sizeD :=
        aliasItem_sizeD constants (.instr line ins)
      rw [this]; exact ih _
    | _ =>
      simp only [resolveRegisterAliases, List.map_cons, labelPos] at ih ⊢
      exact ih _

theorem aliases_labelNames (G : List Item) (constants : Dict) :
    labelNames (resolveRegisterAliases G constants) = labelNames G := by
  induction G with
  | nil => rfl
  | cons it rest ih =>
    cases it <;> simp only [resolveRegisterAliases, List.map_cons, labelNames] at ih ⊢ <;>
      first | exact ih | (rw [ih])

theorem aliases_nonNeg {G : List Item} (constants : Dict) (h : NonNeg G) :
    NonNeg (resolveRegisterAliases G constants) := by
  intro x hx
  simp only [resolveRegisterAliases, List.mem_map] at hx
  obtain ⟨it, hit, rfl⟩ := hx
  have h0 := h it hit
  cases it with
  | instr line ins =>
    have := aliasItem_sizeD constants (.instr line ins)
    simp only at this
    rw [this]; exact h0
  | _ => exact h0

theorem aliases_strip (G : List Item) (constants : Dict) :
    strip (resolveRegisterAliases G constants) = resolveRegisterAliases (strip G) constants := by
  induction G with
  | nil => rfl
  | cons it rest ih =>
    cases it <;> simp [resolveRegisterAliases, strip, Item.isLabel] at ih ⊢ <;> exact ih

end BB.Lemmas
