/-
  BB.Lemmas.CompressLeft — what is LEFT uncompressed by transform_compressible, and where the
  instructions of the list held after resolve_aligns come from.

  * `firstMatch_labelfree`   : on an instruction whose immediate is label-free the search of the
                               criteria table gives the same answer at every label table / position
  * `compressBody_kept`      : `compressBody` keeps an instruction only if it is the jalr of an auipc
                               pair or `firstMatch = .ok none`; otherwise the replacement is compressed
  * `compress_pass_kept`     : the same for every uncompressed instruction of the pass's output
  * `align_pass_instrs`      : resolve_aligns keeps instruction items (its output's instructions
                               are instructions of its input)
  * `immBody_instr_resolve`, `finish_instr_bytes` : reading one instruction item of `Land`
  * `assemble_stages`        : `assemble_land` with the stages around the SECOND compression pass exposed
-/
import BB.Props.C03End
import BB.Props.C04
import BB.Lemmas.CompressDecide
set_option linter.unusedSimpArgs false
set_option linter.unusedVariables false
set_option linter.unusedTactic false
set_option linter.unreachableTactic false
namespace BB.Lemmas
open BB BB.Spec

/-! ### label-free immediates: the decision does not depend on the label table or the position -/

section LabelFree
variable {H : Hooks} {constants : Dict} {ins : Instr}

theorem immOf_labelfree (hfree : ∀ imm, ins.imm? = some imm → ImmLabelFree H constants imm)
    (L L' : Dict) (line : Line) (q q' : Int) :
    immOf H (chainGet constants L) line ins q = immOf H (chainGet constants L') line ins q' := by
  unfold immOf
  cases hi : ins.imm? with
  | none => rfl
  | some imm => exact hfree imm hi L L' line q q'

theorem predEval_labelfree (hfree : ∀ imm, ins.imm? = some imm → ImmLabelFree H constants imm)
    (L L' : Dict) (line : Line) (q q' : Int) (pr : Pred) :
    pr.eval H (chainGet constants L) line ins q = pr.eval H (chainGet constants L') line ins q' := by
  cases pr <;> simp only [Pred.eval, immOf_labelfree hfree L L' line q q']

theorem allPreds_labelfree (hfree : ∀ imm, ins.imm? = some imm → ImmLabelFree H constants imm)
    (L L' : Dict) (line : Line) (q q' : Int) (preds : List Pred) :
    allPreds H (chainGet constants L) line ins q preds = allPreds H (chainGet constants L') line ins q' preds := by
  induction preds with
  | nil => rfl
  | cons pr rest ih => simp only [allPreds, predEval_labelfree hfree L L' line q q' pr, ih]

/-- **on a label-free instruction the compression decision is the same at every label table and
    position** -/
theorem firstMatch_labelfree (hfree : ∀ imm, ins.imm? = some imm → ImmLabelFree H constants imm)
    (L L' : Dict) (line : Line) (q q' : Int) (crit : List (String × List Pred)) :
    firstMatch H (chainGet constants L) line ins q crit = firstMatch H (chainGet constants L') line ins q' crit := by
  induction crit with
  | nil => rfl
  | cons cp rest ih =>
    obtain ⟨c, preds⟩ := cp
    simp only [firstMatch, allPreds_labelfree hfree L L' line q q' preds, ih]

theorem evalAt_labelfree (hfree : ∀ imm, ins.imm? = some imm → ImmLabelFree H constants imm)
    (L L' : Dict) (line : Line) (q q' : Int) :
    resolveWith (evalAt H (chainGet constants L) line q) ins
      = resolveWith (evalAt H (chainGet constants L') line q') ins := by
  unfold resolveWith
  cases hi : ins.imm? with
  | none => rfl
  | some imm => simp only [evalAt, hfree imm hi L L' line q q']

end LabelFree

/-! ### what the compression pass keeps -/

/-- `compressBody` on an instruction: kept only when it is the jalr of an auipc pair or when NO
    criterion matches at this position and label table; otherwise replaced by a compressed form -/
theorem compressBody_kept (H : Hooks) (constants : Dict) (line : Line) (ins : Instr) (position : Int)
    (labels : Dict) (repl : List Item) (n : Int)
    (h : compressBody H constants (.instr line ins) position labels = .ok (repl, n)) :
    (repl = [.instr line ins] ∧
      (ins.isAuipcJump = true ∨ firstMatch H (chainGet constants labels) line ins position criteria = .ok none)) ∨
    (∃ cf, cf.isCompressed = true ∧ repl = [.instr line cf]) := by
  simp only [compressBody] at h
  by_cases haj : ins.isAuipcJump = true
  · rw [if_pos haj] at h; exact Or.inl ⟨(keepItem_ok h).1, Or.inl haj⟩
  · rw [if_neg haj] at h
    cases hm : firstMatch H (chainGet constants labels) line ins position criteria with
    | error e =>
      rw [hm] at h
      split at h <;> first | (simp at h; done) | (rename_i heq; cases heq; done) | (rename_i heq _; cases heq; done)
    | ok m =>
      rw [hm] at h
      cases m with
      | none => exact Or.inl ⟨(keepItem_ok h).1, Or.inr rfl⟩
      | some c =>
        simp only at h
        cases hci : compressedForm c ins with
        | none => simp [hci] at h
        | some cf =>
          simp only [hci, pure, Except.pure, Except.ok.injEq, Prod.mk.injEq] at h
          exact Or.inr ⟨cf, (compressedForm_sizes hci).2, h.1.symm⟩

/-- **every instruction the compression pass leaves uncompressed was looked at and matched no
    criterion** (at the position and label table the pass had there), unless it is the jalr of an
    auipc pair -/
theorem compress_pass_kept (H : Hooks) (constants : Dict) (items : List Item) :
    ∀ (p : Int) (labels : Dict) (out : List Item) (labels' : Dict),
    walk (compressBody H constants) items p labels = .ok (out, labels') →
    ∀ line ins, Item.instr line ins ∈ out → ins.isCompressed = false → ins.isAuipcJump = false →
      ∃ q L, firstMatch H (chainGet constants L) line ins q criteria = .ok none := by
  induction items with
  | nil =>
    intro p labels out labels' h line ins hmem
    simp only [walk, Except.ok.injEq, Prod.mk.injEq] at h
    rw [← h.1] at hmem; simp at hmem
  | cons it rest ih =>
    intro p labels out labels' h line ins hmem hnc hnaj
    by_cases hlab : ∃ l nm, it = .label l nm
    · obtain ⟨l, nm, rfl⟩ := hlab
      simp only [walk, bind, Except.bind] at h
      cases hr : walk (compressBody H constants) rest p labels with
      | error e => simp [hr] at h
      | ok r =>
        obtain ⟨o, l2⟩ := r
        simp only [hr, pure, Except.pure, Except.ok.injEq, Prod.mk.injEq] at h
        rw [← h.1] at hmem
        simp only [List.mem_cons, reduceCtorEq, false_or] at hmem
        exact ih p labels o l2 hr line ins hmem hnc hnaj
    · have hnl : ∀ l nm, it ≠ .label l nm := fun l nm e => hlab ⟨l, nm, e⟩
      have hw : walk (compressBody H constants) (it :: rest) p labels = (do
          let (repl, n) ← compressBody H constants it p labels
          let (o, l) ← walk (compressBody H constants) rest (p + sizeSum repl) (labels.shiftAbove p n)
          pure (repl ++ o, l)) := by
        cases it <;> first | rfl | exact absurd rfl (hnl _ _)
      rw [hw] at h
      simp only [bind, Except.bind] at h
      cases hb : compressBody H constants it p labels with
      | error e => simp [hb] at h
      | ok rn =>
        obtain ⟨repl, n⟩ := rn
        simp only [hb] at h
        cases hr : walk (compressBody H constants) rest (p + sizeSum repl) (labels.shiftAbove p n) with
        | error e => simp [hr] at h
        | ok r =>
          obtain ⟨o, l2⟩ := r
          simp only [hr, pure, Except.pure, Except.ok.injEq, Prod.mk.injEq] at h
          rw [← h.1] at hmem
          rcases List.mem_append.mp hmem with hm | hm
          · cases it with
            | instr line0 ins0 =>
              rcases compressBody_kept H constants line0 ins0 p labels repl n hb with ⟨rfl, hk⟩ | ⟨cf, hcf, rfl⟩
              · simp only [List.mem_singleton, Item.instr.injEq] at hm
                obtain ⟨rfl, rfl⟩ := hm
                rcases hk with hk | hk
                · rw [hk] at hnaj; cases hnaj
                · exact ⟨p, labels, hk⟩
              · simp only [List.mem_singleton, Item.instr.injEq] at hm
                obtain ⟨_, rfl⟩ := hm
                rw [hcf] at hnc; cases hnc
            | label l nm => exact absurd rfl (hnl l nm)
            | _ =>
              obtain ⟨rfl, _⟩ := BB.Props.C04.data_unchanged H constants _ p labels repl n (by intro l i; simp) hb
              simp at hm
          · exact ih _ _ o l2 hr line ins hm hnc hnaj

/-- resolve_aligns keeps instruction items: the instructions of its output are instructions of its input -/
theorem align_pass_instrs (items : List Item) :
    ∀ (p : Int) (labels : Dict) (out : List Item) (labels' : Dict),
    walk alignBody items p labels = .ok (out, labels') →
    ∀ line ins, Item.instr line ins ∈ out → Item.instr line ins ∈ items := by
  induction items with
  | nil =>
    intro p labels out labels' h line ins hmem
    simp only [walk, Except.ok.injEq, Prod.mk.injEq] at h
    rw [← h.1] at hmem; simp at hmem
  | cons it rest ih =>
    intro p labels out labels' h line ins hmem
    by_cases hlab : ∃ l nm, it = .label l nm
    · obtain ⟨l, nm, rfl⟩ := hlab
      simp only [walk, bind, Except.bind] at h
      cases hr : walk alignBody rest p labels with
      | error e => simp [hr] at h
      | ok r =>
        obtain ⟨o, l2⟩ := r
        simp only [hr, pure, Except.pure, Except.ok.injEq, Prod.mk.injEq] at h
        rw [← h.1] at hmem
        simp only [List.mem_cons, reduceCtorEq, false_or] at hmem
        exact List.mem_cons_of_mem _ (ih p labels o l2 hr line ins hmem)
    · have hnl : ∀ l nm, it ≠ .label l nm := fun l nm e => hlab ⟨l, nm, e⟩
      have hw : walk alignBody (it :: rest) p labels = (do
          let (repl, n) ← alignBody it p labels
          let (o, l) ← walk alignBody rest (p + sizeSum repl) (labels.shiftAbove p n)
          pure (repl ++ o, l)) := by
        cases it <;> first | rfl | exact absurd rfl (hnl _ _)
      rw [hw] at h
      simp only [bind, Except.bind] at h
      cases hb : alignBody it p labels with
      | error e => simp [hb] at h
      | ok rn =>
        obtain ⟨repl, n⟩ := rn
        simp only [hb] at h
        cases hr : walk alignBody rest (p + sizeSum repl) (labels.shiftAbove p n) with
        | error e => simp [hr] at h
        | ok r =>
          obtain ⟨o, l2⟩ := r
          simp only [hr, pure, Except.pure, Except.ok.injEq, Prod.mk.injEq] at h
          rw [← h.1] at hmem
          rcases List.mem_append.mp hmem with hm | hm
          · cases it with
            | align l0 a =>
              simp only [alignBody] at hb
              split at hb
              · simp at hb
              · split at hb
                · simp only [pure, Except.pure, Except.ok.injEq, Prod.mk.injEq] at hb
                  rw [← hb.1] at hm; simp at hm
                · split at hb
                  · simp at hb
                  · simp only [pure, Except.pure, Except.ok.injEq, Prod.mk.injEq] at hb
                    rw [← hb.1] at hm; simp at hm
            | label l nm => exact absurd rfl (hnl l nm)
            | _ =>
              obtain ⟨rfl, _⟩ := keepItem_ok (by simpa [alignBody] using hb)
              simp only [List.mem_singleton] at hm
              rw [hm]; exact List.mem_cons_self
          · exact List.mem_cons_of_mem _ (ih _ _ o l2 hr line ins hm)

/-! ### reading one instruction item of the final list -/

/-- resolve_immediates on a (non-auipc-pair) instruction is `resolveWith` at the model's own
    evaluation, at the item's position against the given tables -/
theorem immBody_instr_resolve {H : Hooks} {constants L : Dict} {line : Line} {ins : Instr} {p : Int} {it' : Item}
    (hnaj : ins.isAuipcJump = false)
    (h : immBody H constants (.instr line ins) p L = .ok ([it'], 0)) :
    ∃ rins, it' = .instr line rins ∧ resolveWith (evalAt H (chainGet constants L) line p) ins = some rins := by
  cases hi : ins.imm? with
  | none =>
    simp only [immBody, hi] at h
    have := (keepItem_ok h).1
    simp only [List.cons.injEq, and_true] at this
    exact ⟨ins, this, by simp [resolveWith, hi]⟩
  | some imm =>
    obtain ⟨v, hv, rfl⟩ := BB.Props.C08.instr_item_value H constants L line ins imm p it' hi h
    simp only [hnaj, Bool.false_eq_true, if_false] at hv
    exact ⟨_, rfl, by simp [resolveWith, hi, evalAt, hv, Except.toOption]⟩

/-- the later passes turn a resolved instruction item into the bytes of the word its encoder emits -/
theorem finish_instr_bytes {H : Hooks} {line line' : Line} {rins : Instr} {d : List Nat}
    (h : BB.Props.C03.Finish H (.instr line rins) (.blob line' d)) :
    ∃ args w, rins.args = some args ∧ encode rins.name args = .ok w ∧
      d = leBytes (if rins.isCompressed then 2 else 4) w := by
  obtain ⟨b, d0, e0, f0, h1, _⟩ := id h
  obtain ⟨args, w, ha, he, hb⟩ := BB.Props.C03.instrStep_bytes h1
  have := BB.Props.C03.finish_of_blob h (by rw [h1, hb])
  simp only [Item.blob.injEq] at this
  exact ⟨args, w, ha, he, this.2⟩

theorem wellKinded_row {ins : Instr} (hwk : ins.wellKinded = true) :
    ∃ k, instrTable.lookup ins.name = some k ∧ k.size = 4 ∧ ins.isCompressed = false := by
  unfold Instr.wellKinded at hwk
  cases hk : instrTable.lookup ins.name with
  | none => simp [hk] at hwk
  | some k =>
    simp only [hk] at hwk
    refine ⟨k, rfl, ?_, ?_⟩
    · cases k <;> first | rfl | (cases ins <;> simp [kindMatches] at hwk)
    · cases ins <;> first | rfl | (cases k <;> simp [kindMatches] at hwk)

theorem resolveWith_keeps {ev : Imm → Option Int} {ins rins : Instr} (h : resolveWith ev ins = some rins) :
    rins.name = ins.name ∧ rins.isCompressed = ins.isCompressed := by
  unfold resolveWith at h
  split at h
  · cases h; exact ⟨rfl, rfl⟩
  · rename_i imm _
    cases hv : ev imm with
    | none => simp [hv] at h
    | some v =>
      simp only [hv, Option.map_some, Option.some.injEq] at h
      subst h
      exact ⟨by cases ins <;> rfl, setImm_isCompressed _ _⟩

/-! ### the pipeline, with the stages around the second compression pass exposed -/

/-- `assemble_land` (Props/C03End) with the pipeline visible: `items2a` is the list handed to the FIRST
    transform_compressible (already through resolve_register_aliases), `items3` what it returns,
    `items4` the list after the pseudo-instruction pass, its aliased version the input of the SECOND
    transform_compressible, `items6` what that returns, `items7` the list after resolve_aligns (the one
    `Land` reads, against the returned tables) -/
theorem assemble_stages_full (H : Hooks) (compress : Bool) (items : List Item) (r : AsmResult)
    (h : assembleItems H compress items [] [] = .ok r) :
    ∃ (items2 items3 items4 items6 items7 out : List Item) (labels2 labels3 labels4 labels6 : Dict),
      Expands items (resolveRegisterAliases items4 r.constants) ∧ Expands items items7 ∧
      maybeCompress H compress (resolveRegisterAliases items2 r.constants) r.constants labels2
        = .ok (items3, labels3) ∧
      transformPseudo H items3 r.constants labels3 = .ok (items4, labels4) ∧
      maybeCompress H compress (resolveRegisterAliases items4 r.constants) r.constants labels4
        = .ok (items6, labels6) ∧
      resolveAligns items6 labels6 = .ok (items7, r.labels) ∧
      BB.Props.C03.Land H r.constants r.labels 0 items7 out ∧ r.bytes = blobBytes out := by
  unfold assembleItems at h
  simp only [bind, Except.bind] at h
  cases h1 : resolveConstants H items [] with
  | error e => simp [h1] at h
  | ok r1 =>
  obtain ⟨items1, constants⟩ := r1
  simp only [h1] at h
  have e1 := resolveConstants_expands H items [] items1 constants h1
  cases h2 : resolveLabels items1 [] with
  | error e => simp [h2] at h
  | ok r2 =>
  obtain ⟨items2, labels2⟩ := r2
  simp only [h2] at h
  have e2 := e1.trans (resolveLabelsAux_expands items1 0 [] [] items2 labels2 h2)
  have e2a := e2.trans (aliases_expands items2 constants)
  cases h3 : maybeCompress H compress (resolveRegisterAliases items2 constants) constants labels2 with
  | error e => simp [h3] at h
  | ok r3 =>
  obtain ⟨items3, labels3⟩ := r3
  simp only [h3] at h
  have e3 := e2a.trans (BB.Props.C09.maybeCompress_expands H compress _ constants labels2 items3 labels3 h3)
  cases h4 : transformPseudo H items3 constants labels3 with
  | error e => simp [h4] at h
  | ok r4 =>
  obtain ⟨items4, labels4⟩ := r4
  simp only [h4] at h
  have e4 := e3.trans (walk_expands (pseudoBody_img H constants) items3 0 labels3 items4 labels4 h4)
  have e5 := e4.trans (aliases_expands items4 constants)
  cases h6 : maybeCompress H compress (resolveRegisterAliases items4 constants) constants labels4 with
  | error e => simp [h6] at h
  | ok r6 =>
  obtain ⟨items6, labels6⟩ := r6
  simp only [h6] at h
  have e6 := e5.trans (BB.Props.C09.maybeCompress_expands H compress _ constants labels4 items6 labels6 h6)
  cases h7 : resolveAligns items6 labels6 with
  | error e => simp [h7] at h
  | ok r7 =>
  obtain ⟨items7, labels7⟩ := r7
  simp only [h7] at h
  have e7 := e6.trans (walk_expands alignBody_img items6 0 labels6 items7 labels7 h7)
  cases h8 : resolveImmediates H items7 constants labels7 with
  | error e => simp [h8] at h
  | ok items8 =>
  simp only [h8] at h
  unfold resolveImmediates at h8
  simp only [bind, Except.bind] at h8
  cases h8w : walk (immBody H constants) items7 0 labels7 with
  | error e => simp [h8w] at h8
  | ok r8 =>
  obtain ⟨o8, l8⟩ := r8
  simp only [h8w, pure, Except.pure, Except.ok.injEq] at h8
  subst h8
  obtain ⟨_, hrel⟩ := BB.Props.C08.imm_walk_positions H constants items7 0 labels7 o8 l8 h8w
  cases h9 : resolveInstructions o8 with
  | error e => simp [h9] at h
  | ok items9 =>
  simp only [h9] at h
  cases h11 : resolveSequences (resolveStrings items9) with
  | error e => simp [h11] at h
  | ok items11 =>
  simp only [h11] at h
  cases h12 : transformShorthandPacks items11 with
  | error e => simp [h12] at h
  | ok items12 =>
  simp only [h12] at h
  cases h13 : resolvePacks items12 with
  | error e => simp [h13] at h
  | ok items13 =>
  simp only [h13] at h
  cases h14 : resolveIncludeBytes H items13 with
  | error e => simp [h14] at h
  | ok items14 =>
  simp only [h14] at h
  cases h15 : resolveBlobs items14 with
  | error e => simp [h15] at h
  | ok bytes =>
  simp only [h15, pure, Except.pure, Except.ok.injEq] at h
  obtain ⟨hb1, hb2⟩ := BB.Props.C09.resolveBlobs_bytes items14 bytes h15
  have p9 := BB.Props.C03.mapM_pw o8 items9 h9
  have p10 : BB.Props.C03.Pw (fun a b => b = BB.Props.C03.stringStep a) items9 (resolveStrings items9) :=
    BB.Props.C03.map_pw BB.Props.C03.stringStep items9
  have p11 := BB.Props.C03.mapM_pw _ items11 h11
  have p12 := BB.Props.C03.mapM_pw _ items12 h12
  have p13 := BB.Props.C03.mapM_pw _ items13 h13
  have p14 := BB.Props.C03.mapM_pw _ items14 h14
  have pall := ((((p9.comp p10).comp p11).comp p12).comp p13).comp p14
  have pfin : BB.Props.C03.Pw (BB.Props.C03.Finish H) o8 items14 := by
    refine BB.Props.C03.Pw.mono ?_ pall
    rintro a z ⟨f, ⟨e, ⟨d, ⟨c, ⟨b, hb, hc⟩, hd⟩, he⟩, hf⟩, hz⟩
    subst hc
    exact ⟨b, d, e, f, hb, hd, he, hf, hz⟩
  rw [← h]
  exact ⟨items2, items3, items4, items6, items7, items14, labels2, labels3, labels4, labels6, e5, e7, h3, h4, h6, h7,
    BB.Props.C03.land_of hrel pfin hb1, hb2⟩

/-- the stages around the SECOND compression pass only -/
theorem assemble_stages (H : Hooks) (compress : Bool) (items : List Item) (r : AsmResult)
    (h : assembleItems H compress items [] [] = .ok r) :
    ∃ (items5 items6 items7 out : List Item) (labels4 labels6 : Dict),
      Expands items items5 ∧ Expands items items7 ∧
      maybeCompress H compress items5 r.constants labels4 = .ok (items6, labels6) ∧
      resolveAligns items6 labels6 = .ok (items7, r.labels) ∧
      BB.Props.C03.Land H r.constants r.labels 0 items7 out ∧ r.bytes = blobBytes out := by
  obtain ⟨items2, items3, items4, items6, items7, out, labels2, labels3, labels4, labels6, e5, e7, _, _, h6, h7, hl, hb⟩ :=
    assemble_stages_full H compress items r h
  exact ⟨_, items6, items7, out, labels4, labels6, e5, e7, h6, h7, hl, hb⟩

end BB.Lemmas
