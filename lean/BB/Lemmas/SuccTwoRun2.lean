/-
  BB.Lemmas.SuccTwoRun2 — `two_run_ghost` (Lemmas/SuccTwoRun) with the lists and walks around the two
  pseudo-instruction passes exposed (what `near_range` needs), and the ghost lists tied to the decided lists
  (`strip` of the ghost list IS the list the pipeline holds before resolve_aligns).
-/
import BB.Lemmas.SuccMain2
namespace BB.Lemmas
open BB BB.Spec
open BB.Props.C03 (Land Finish Stage)
open BB.Props.C04 (aliased_fixed mapRegs_idem')
open BB.Props.C05 (immTokens)
open BB.Props.C20 (GrowHyps)

/-- the two runs as ghost lists, with the lists and walks around the two pseudo-instruction passes exposed -/
theorem two_run_ghost2 (H : Hooks) (items : List Item) (hyp : GrowHyps H items) (constants : Dict)
    {items1 items2 : List Item} {labels2 : Dict}
    {a4 a7 : List Item} {la4 la7 : Dict}                 -- run 0
    {b3 b4 b6 b7 : List Item} {lb3 lb4 lb6 lb7 : Dict}   -- run 1
    (h1 : resolveConstants H items [] = .ok (items1, constants))
    (h2 : resolveLabels items1 [] = .ok (items2, labels2))
    (ha4 : transformPseudo H (resolveRegisterAliases items2 constants) constants labels2 = .ok (a4, la4))
    (ha7 : resolveAligns (resolveRegisterAliases a4 constants) la4 = .ok (a7, la7))
    (hb3 : maybeCompress H true (resolveRegisterAliases items2 constants) constants labels2 = .ok (b3, lb3))
    (hb4 : transformPseudo H b3 constants lb3 = .ok (b4, lb4))
    (hb6 : maybeCompress H true (resolveRegisterAliases b4 constants) constants lb4 = .ok (b6, lb6))
    (hb7 : resolveAligns b6 lb6 = .ok (b7, lb7)) :
    ∃ B3 A4 B4 B6 : List Item,
      IWd H constants (resolveRegisterAliases items1 constants) B3 ∧
      walk (pseudoBody H constants) B3 0 lb3 = .ok (B4, lb4) ∧ Corr H constants A4 B4 ∧
      IWd H constants (resolveRegisterAliases B4 constants) B6 ∧
      walk alignBody B6 0 lb6 = .ok (alignImg B6 0, lb7) ∧
      NonNeg B3 ∧ (labelNames B3).Nodup ∧ labelNames B3 = labelNames items ∧
      (∀ ℓ v, labelPos B3 0 ℓ = some v → lb3.get ℓ = some v) ∧ (∀ ℓ v, ℓ ∉ labelNames B3 → lb3.get ℓ = some v → v ≤ 0) ∧
      sizeSum B3 ≤ sizeSum items ∧
      walk (pseudoBody H constants) (resolveRegisterAliases items1 constants) 0 labels2 = .ok (A4, la4) ∧
      Corr H constants (resolveRegisterAliases A4 constants) B6 ∧
      strip (alignImg (resolveRegisterAliases A4 constants) 0) = a7 ∧ strip (alignImg B6 0) = b7 ∧
      NonNeg (resolveRegisterAliases A4 constants) ∧ NonNeg B6 ∧
      (labelNames B6).Nodup ∧ labelNames B6 = labelNames items ∧
      (∀ ℓ u, labelPos (alignImg (resolveRegisterAliases A4 constants) 0) 0 ℓ = some u → la7.get ℓ = some u) ∧
      (∀ ℓ u, labelPos (alignImg B6 0) 0 ℓ = some u → lb7.get ℓ = some u) ∧
      Blocks items B6 ∧
      strip (resolveRegisterAliases A4 constants) = resolveRegisterAliases a4 constants ∧ strip B6 = b6 ∧
      labelNames (resolveRegisterAliases A4 constants) = labelNames items := by
  simp only [maybeCompress, if_true, transformCompressible] at hb3 hb6
  unfold transformPseudo at ha4 hb4
  unfold resolveAligns at ha7 hb7
  obtain ⟨c1, c2, c3⟩ := BB.Props.C03.resolveConstants_spec H items [] items1 constants h1
  obtain ⟨l1, l2, _, l4, l5⟩ := resolveLabelsAux_spec items1 0 [] [] items2 labels2 h2
  have st0 : Stage items1 items2 labels2 (labelNames items) := by
    refine ⟨l1.symm, c2 hyp.nonneg, l2, c1, l4, ?_⟩
    intro ℓ v hℓ hv
    rw [l5 ℓ hℓ] at hv
    simp [Dict.get, List.lookup] at hv
  have hnone2 : ∀ ℓ, ℓ ∉ labelNames items → labels2.get ℓ = none := by
    intro ℓ hℓ
    rw [l5 ℓ (by rw [c1]; exact hℓ)]
    simp [Dict.get, List.lookup]
  have st1 := BB.Props.C03.stage_aliases st0 constants
  obtain ⟨B3, wb3, sb3, _⟩ := stage_walk'' (compressBody_ok H constants) st1 hb3
  have hiw3 := walk_compress_IWd H constants _ 0 labels2 B3 lb3 wb3
  obtain ⟨A4, wa4, sa4, _⟩ := stage_walk'' (pseudoBody_ok H constants) st1 ha4
  obtain ⟨B4, wb4, sb4, _⟩ := stage_walk'' (pseudoBody_ok H constants) sb3 hb4
  have hsz : sizeSum (resolveRegisterAliases items1 constants) = sizeSum items := by
    rw [sizeSum_aliases, resolveConstants_sizeSum H items [] items1 constants h1]
  have hpseudo_mem : ∀ line name args, Item.pseudo line name args ∈ resolveRegisterAliases items1 constants →
      Item.pseudo line name args ∈ items := by
    intro line name args hm
    exact c3 _ (mem_aliases_other (by intro l i e; cases e) hm)
  have hcorr4 : Corr H constants A4 B4 := by
    refine pseudo_lockstep_corr H constants hyp.offset (sizeSum items) hyp.small hiw3 0 0 labels2 lb3 A4 B4 la4 lb4
      st1.nonneg st1.nodup ⟨st1.agree, st1.low⟩ ⟨sb3.agree, sb3.low⟩ ?_ (Int.le_refl _) (by rw [hsz]; omega) ?_ ?_ ?_ wa4 wb4
    · intro ℓ hℓ u0 hu0
      rw [aliases_labelNames, c1] at hℓ
      rw [hnone2 ℓ hℓ] at hu0
      cases hu0
    · intro line name args hm hk imm hpi
      exact hyp.li items1 constants h1 line name args (hpseudo_mem line name args hm) hk imm hpi
    · intro line name args ref hm hk ha
      exact hyp.calls items1 constants h1 line name args ref (hpseudo_mem line name args hm) hk ha
    · intro l i hm; exact aliased_fixed hm
  have hcorr5 := hcorr4.aliases
  have sa5 := BB.Props.C03.stage_aliases sa4 constants
  have sb5 := BB.Props.C03.stage_aliases sb4 constants
  obtain ⟨B6, wb6, sb6, _⟩ := stage_walk'' (compressBody_ok H constants) sb5 hb6
  have hcorr6 : Corr H constants (resolveRegisterAliases A4 constants) B6 :=
    hcorr5.then_iwd (fun l i hm => aliased_fixed hm) (walk_compress_IWd H constants _ 0 lb4 B6 lb6 wb6)
  obtain ⟨A7, wa7, sa7, _⟩ := stage_walk'' alignBody_ok sa5 ha7
  obtain ⟨B7, wb7, sb7, _⟩ := stage_walk'' alignBody_ok sb6 hb7
  have eA7 := walk_alignImg _ 0 la4 A7 la7 wa7
  have eB7 := walk_alignImg _ 0 lb6 B7 lb7 wb7
  subst eA7 eB7
  have hszB3 : sizeSum B3 ≤ sizeSum items := by
    have := hiw3.toIW.sizeSum_le
    omega
  -- blocks
  have hblocks : Blocks items B6 := by
    have k1 := resolveConstants_blocks H items [] items1 constants h1
    have k2 := k1.trans (aliases_blocks constants items1)
    have k3 := k2.trans (walk_blocks _ (fun it _ => compressBody_blk H constants it) 0 labels2 B3 lb3 wb3)
    have hps : ∀ it ∈ B3, ∀ p L repl n, (∀ line nm, it ≠ .label line nm) →
        pseudoBody H constants it p L = .ok (repl, n) → Blk it repl := by
      intro it hit p L repl n hnl hb
      refine pseudoBody_blk H constants hyp.offset it p L repl n hnl (sb3.nonneg it hit) ?_ hb
      intro line name args e hk imm hpi
      subst e
      have hm1 := walk_mem_back (P := IsPseudo) (compressBody_no_new H constants (by rintro l i ⟨_, _, _, e⟩; cases e))
        _ 0 labels2 B3 lb3 wb3 _ hit ⟨line, name, args, rfl⟩
      exact hyp.li items1 constants h1 line name args (hpseudo_mem line name args hm1) hk imm hpi
    have k4 := k3.trans (walk_blocks _ hps 0 lb3 B4 lb4 wb4)
    have k5 := k4.trans (aliases_blocks constants B4)
    exact k5.trans (walk_blocks _ (fun it _ => compressBody_blk H constants it) 0 lb4 B6 lb6 wb6)
  exact ⟨B3, A4, B4, B6, hiw3, wb4, hcorr4, walk_compress_IWd H constants _ 0 lb4 B6 lb6 wb6, wb7,
    sb3.nonneg, sb3.nodup, sb3.names_eq, sb3.agree, sb3.low, hszB3, wa4, hcorr6, sa7.strip_eq, sb7.strip_eq, sa5.nonneg, sb6.nonneg, sb6.nodup, sb6.names_eq,
    sa7.agree, sb7.agree, hblocks, sa5.strip_eq, sb6.strip_eq, sa5.names_eq⟩


end BB.Lemmas
