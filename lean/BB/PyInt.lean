/-
  BB.PyInt — model of Python's `int(s, base=0)` on ASCII text (used by
  `lookup_register`, `is_int`, `align`, sequences, `fence`, `aq/rl`, `include_bytes` sizes)
  and of integer-literal tokens inside `eval`.
-/
namespace BB

def isPyWs (c : Char) : Bool :=
  c = ' ' || c = '\t' || c = '\n' || c = '\r' || c = '\x0b' || c = '\x0c' ||
  c = '\x1c' || c = '\x1d' || c = '\x1e' || c = '\x1f'

def digitVal (c : Char) : Option Nat :=
  if '0' ≤ c ∧ c ≤ '9' then some (c.toNat - '0'.toNat)
  else if 'a' ≤ c ∧ c ≤ 'z' then some (c.toNat - 'a'.toNat + 10)
  else if 'A' ≤ c ∧ c ≤ 'Z' then some (c.toNat - 'A'.toNat + 10)
  else none

def digitIn (base : Nat) (c : Char) : Option Nat :=
  match digitVal c with
  | some d => if d < base then some d else none
  | none => none

/-- digits with single underscores *between* digits or (if `leadUs`) one leading underscore.
    `acc` = value so far, `prevDigit` = the previous char was a digit. -/
def parseDigitsAux (base : Nat) : List Char → Nat → Bool → Option Nat
  | [], acc, prevDigit => if prevDigit then some acc else none
  | c :: cs, acc, prevDigit =>
    if c = '_' then
      if prevDigit then
        -- an underscore must be followed by a digit
        match cs with
        | d :: _ => if (digitIn base d).isSome then parseDigitsAux base cs acc false else none
        | [] => none
      else none
    else
      match digitIn base c with
      | some d => parseDigitsAux base cs (acc * base + d) true
      | none => none

/-- `0x…`, `0o…`, `0b…` bodies may start with one underscore (`0x_1f`). -/
def parsePrefixed (base : Nat) (cs : List Char) : Option Nat :=
  match cs with
  | '_' :: d :: rest =>
    if (digitIn base d).isSome then parseDigitsAux base (d :: rest) 0 false else none
  | _ => match cs with
    | [] => none
    | _ => parseDigitsAux base cs 0 false

/-- unsigned literal body for base 0 -/
def parseBase0Body (cs : List Char) : Option Nat :=
  match cs with
  | '0' :: 'x' :: r => parsePrefixed 16 r
  | '0' :: 'X' :: r => parsePrefixed 16 r
  | '0' :: 'o' :: r => parsePrefixed 8 r
  | '0' :: 'O' :: r => parsePrefixed 8 r
  | '0' :: 'b' :: r => parsePrefixed 2 r
  | '0' :: 'B' :: r => parsePrefixed 2 r
  | '0' :: r =>
    -- only zeros (with underscores) may follow a leading zero
    match parseDigitsAux 10 ('0' :: r) 0 false with
    | some 0 => some 0
    | _ => none
  | _ => parseDigitsAux 10 cs 0 false

def dropWsLeft (cs : List Char) : List Char := cs.dropWhile isPyWs
def stripWs (cs : List Char) : List Char := (dropWsLeft (dropWsLeft cs).reverse).reverse

/-- Python `int(s, base=0)`; `none` = ValueError. -/
def pyInt0 (s : List Char) : Option Int :=
  match stripWs s with
  | '-' :: r => (parseBase0Body r).map (fun n => - (Int.ofNat n))
  | '+' :: r => (parseBase0Body r).map Int.ofNat
  | r => (parseBase0Body r).map Int.ofNat

/-- `is_int(value)` (asm.py:104-109) for string values. -/
def isInt (s : List Char) : Bool := (pyInt0 s).isSome

end BB
