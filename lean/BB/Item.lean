/-
  BB.Item — the item classes of asm.py:1081-2053 (Line, Expr trees, Item subclasses).
-/
import BB.Reg
import BB.InstrTable
namespace BB

/-- `Line(file, number, contents)` (asm.py:1081) -/
structure Line where
  file : String
  number : Nat
  contents : String
  deriving Repr, DecidableEq, Inhabited

/-- How a pass can fail.  Messages are not modelled; only the class and the line. -/
inductive Err where
  | asm (line : Line)              -- AssemblerError(message, line)
  | internal (pyType : String)     -- any other Python exception that escapes (ValueError, KeyError, ...)
  | unsupported (why : String)     -- the input is outside the modelled subset; never compared
  deriving Repr, DecidableEq, Inhabited

/-- `Expr` subclasses (asm.py:1120-1262).  `value` is what `resolve_immediates` stores in the
    `imm` field (a plain int). -/
inductive Imm where
  | arith (expr : String)                 -- Arithmetic(expr): tokens joined by single spaces
  | position (ref : String) (expr : String)  -- Position(reference, Arithmetic(expr))
  | offset (ref : String)
  | hi (e : Imm)
  | lo (e : Imm)
  | value (v : Int)
  deriving Repr, DecidableEq, Inhabited

/-- One constructor per `Instruction` subclass, fields in the order of the Python constructor
    (after `line`, `name`). -/
inductive Instr where
  | r (name : String) (rd rs1 rs2 : RegOp)
  | i (name : String) (rd rs1 : RegOp) (imm : Imm) (isAuipcJump : Bool)
  | ie (name : String)
  | s (name : String) (rs1 rs2 : RegOp) (imm : Imm)
  | b (name : String) (rs1 rs2 : RegOp) (imm : Imm)
  | u (name : String) (rd : RegOp) (imm : Imm)
  | j (name : String) (rd : RegOp) (imm : Imm)
  | fence (name : String) (succ pred : RegOp)           -- str token or int
  | a (name : String) (rd rs1 rs2 : RegOp) (aq rl : RegOp)
  | al (name : String) (rd rs1 : RegOp) (aq rl : RegOp)
  | cr (name : String) (rdRs1 rs2 : RegOp)
  | crj (name : String) (rdRs1 : RegOp) (isAuipcJump : Bool)
  | cre (name : String)
  | ci (name : String) (rdRs1 : RegOp) (imm : Imm)
  | cia (name : String) (imm : Imm)
  | cin (name : String)
  | css (name : String) (rs2 : RegOp) (imm : Imm)
  | ciw (name : String) (rd : RegOp) (imm : Imm)
  | cl (name : String) (rd rs1 : RegOp) (imm : Imm)
  | cs (name : String) (rs1 rs2 : RegOp) (imm : Imm)
  | ca (name : String) (rdRs1 rs2 : RegOp)
  | cb (name : String) (rs1 : RegOp) (imm : Imm)
  | cj (name : String) (imm : Imm)
  deriving Repr, DecidableEq, Inhabited

def Instr.name : Instr → String
  | .r n .. | .i n .. | .ie n | .s n .. | .b n .. | .u n .. | .j n .. | .fence n .. | .a n ..
  | .al n .. | .cr n .. | .crj n .. | .cre n | .ci n .. | .cia n .. | .cin n | .css n ..
  | .ciw n .. | .cl n .. | .cs n .. | .ca n .. | .cb n .. | .cj n .. => n

/-- `isinstance(item, CompressedInstruction)` -/
def Instr.isCompressed : Instr → Bool
  | .r .. | .i .. | .ie .. | .s .. | .b .. | .u .. | .j .. | .fence .. | .a .. | .al .. => false
  | _ => true

/-- `Instruction.size()` / `CompressedInstruction.size()` -/
def Instr.size (i : Instr) : Int := if i.isCompressed then 2 else 4

/-- the `imm` attribute, if the class has one -/
def Instr.imm? : Instr → Option Imm
  | .i _ _ _ imm _ | .s _ _ _ imm | .b _ _ _ imm | .u _ _ imm | .j _ _ imm | .ci _ _ imm
  | .cia _ imm | .css _ _ imm | .ciw _ _ imm | .cl _ _ _ imm | .cs _ _ _ imm | .cb _ _ imm
  | .cj _ imm => some imm
  | _ => none

/-- replace the `imm` attribute (`d['imm'] = imm; item.__class__(*d.values())`) -/
def Instr.setImm (ins : Instr) (v : Imm) : Instr :=
  match ins with
  | .i n rd rs1 _ aj => .i n rd rs1 v aj
  | .s n rs1 rs2 _ => .s n rs1 rs2 v
  | .b n rs1 rs2 _ => .b n rs1 rs2 v
  | .u n rd _ => .u n rd v
  | .j n rd _ => .j n rd v
  | .ci n rg _ => .ci n rg v
  | .cia n _ => .cia n v
  | .css n rg _ => .css n rg v
  | .ciw n rg _ => .ciw n rg v
  | .cl n rd rs1 _ => .cl n rd rs1 v
  | .cs n rs1 rs2 _ => .cs n rs1 rs2 v
  | .cb n rg _ => .cb n rg v
  | .cj n _ => .cj n v
  | other => other

/-- `hasattr(item, 'is_auipc_jump') and item.is_auipc_jump` -/
def Instr.isAuipcJump : Instr → Bool
  | .i _ _ _ _ aj => aj
  | .crj _ _ aj => aj
  | _ => false

/-- `item.args()` once every immediate is a plain int (after resolve_immediates) -/
def Instr.args : Instr → Option (List Arg)
  | .r _ rd rs1 rs2 => some [.r rd, .r rs1, .r rs2]
  | .i _ rd rs1 (.value v) _ => some [.r rd, .r rs1, .i v]
  | .ie _ => some []
  | .s _ rs1 rs2 (.value v) => some [.r rs1, .r rs2, .i v]
  | .b _ rs1 rs2 (.value v) => some [.r rs1, .r rs2, .i v]
  | .u _ rd (.value v) => some [.r rd, .i v]
  | .j _ rd (.value v) => some [.r rd, .i v]
  | .fence _ succ pred => some [.r succ, .r pred]
  | .a _ rd rs1 rs2 aq rl => some [.r rd, .r rs1, .r rs2, .r aq, .r rl]
  | .al _ rd rs1 aq rl => some [.r rd, .r rs1, .r aq, .r rl]
  | .cr _ rdRs1 rs2 => some [.r rdRs1, .r rs2]
  | .crj _ rdRs1 _ => some [.r rdRs1]
  | .cre _ => some []
  | .ci _ rg (.value v) => some [.r rg, .i v]
  | .cia _ (.value v) => some [.i v]
  | .cin _ => some []
  | .css _ rg (.value v) => some [.r rg, .i v]
  | .ciw _ rg (.value v) => some [.r rg, .i v]
  | .cl _ rd rs1 (.value v) => some [.r rd, .r rs1, .i v]
  | .cs _ rs1 rs2 (.value v) => some [.r rs1, .r rs2, .i v]
  | .ca _ rdRs1 rs2 => some [.r rdRs1, .r rs2]
  | .cb _ rg (.value v) => some [.r rg, .i v]
  | .cj _ (.value v) => some [.i v]
  | _ => none

/-- `Item` subclasses other than instructions (asm.py:1266-1530) plus the two instruction kinds -/
inductive Item where
  | label (line : Line) (name : String)
  | constant (line : Line) (name : String) (expr : Imm)
  | includeBytes (line : Line) (path : String) (fsize : Int)
  | string (line : Line) (value : String)
  | sequence (line : Line) (name : String) (values : List String)
  | pack (line : Line) (fmt : String) (imm : Imm)
  | shorthandPack (line : Line) (name : String) (imm : Imm)
  | align (line : Line) (alignment : Int)
  | blob (line : Line) (data : List Nat)
  | pseudo (line : Line) (name : String) (args : List String)
  | instr (line : Line) (ins : Instr)
  deriving Repr, DecidableEq, Inhabited

def Item.line : Item → Line
  | .label l .. | .constant l .. | .includeBytes l .. | .string l .. | .sequence l .. | .pack l ..
  | .shorthandPack l .. | .align l .. | .blob l .. | .pseudo l .. | .instr l .. => l

/-- `struct.calcsize(fmt)` for the documented formats (`<`/`>` + one of bBhHiIlLqQ);
    `none` = outside the documented table (struct.error or an undocumented format). -/
def packSize (fmt : String) : Option Nat :=
  match fmt.toList with
  | [e, c] =>
    if e = '<' ∨ e = '>' then
      if c = 'b' ∨ c = 'B' then some 1
      else if c = 'h' ∨ c = 'H' then some 2
      else if c = 'i' ∨ c = 'I' ∨ c = 'l' ∨ c = 'L' then some 4
      else if c = 'q' ∨ c = 'Q' then some 8
      else none
    else none
  | _ => none

def sequenceElemSize (name : String) : Option Nat :=
  if name = "bytes" then some 1 else if name = "shorts" then some 2
  else if name = "ints" then some 4 else if name = "longs" then some 4
  else if name = "longlongs" then some 8 else none

def shorthandSize (name : String) : Option Nat :=
  if name = "db" then some 1 else if name = "dh" then some 2
  else if name = "dw" then some 4 else if name = "dd" then some 8 else none

/-- `item.size()` — the *pessimistic* size used until an item is resolved (asm.py: Align.size,
    PseudoInstruction.size).  `none` = the Python raises (unknown format / key). -/
def Item.size? : Item → Option Int
  | .label .. => some 0
  | .constant .. => some 0
  | .includeBytes _ _ fsize => some fsize
  | .string _ v => some (Int.ofNat v.utf8ByteSize)
  | .sequence _ name values => (sequenceElemSize name).map (fun n => Int.ofNat (n * values.length))
  | .pack _ fmt _ => (packSize fmt).map Int.ofNat
  | .shorthandPack _ name _ => (shorthandSize name).map Int.ofNat
  | .align _ a => some a
  | .blob _ d => some (Int.ofNat d.length)
  | .pseudo _ name _ => some (if name = "li" ∨ name = "call" ∨ name = "tail" then 8 else 4)
  | .instr _ i => some i.size

end BB
