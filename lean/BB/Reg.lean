/-
  BB.Reg — REGISTERS (asm.py:18-52) and lookup_register (asm.py:80-101).
-/
import BB.PyInt
namespace BB

/-- A register operand as the Python code may see it: a token (str) or an int
    (after `resolve_register_aliases` replaced a constant, or a direct API call). -/
inductive RegOp where
  | str (s : String)
  | int (i : Int)
  deriving Repr, DecidableEq, Inhabited

/-- ABI aliases, `REGISTERS` column 4 (plus `fp`). -/
def abiNames : List (String × Nat) := [
  ("zero", 0), ("ra", 1), ("sp", 2), ("gp", 3), ("tp", 4), ("t0", 5), ("t1", 6), ("t2", 7),
  ("s0", 8), ("fp", 8), ("s1", 9), ("a0", 10), ("a1", 11), ("a2", 12), ("a3", 13), ("a4", 14),
  ("a5", 15), ("a6", 16), ("a7", 17), ("s2", 18), ("s3", 19), ("s4", 20), ("s5", 21), ("s6", 22),
  ("s7", 23), ("s8", 24), ("s9", 25), ("s10", 26), ("s11", 27), ("t3", 28), ("t4", 29), ("t5", 30),
  ("t6", 31)]

/-- `xN` names, `REGISTERS` column 3. -/
def xNames : List (String × Nat) := (List.range 32).map (fun n => ("x" ++ toString n, n))

/-- string keys of `REGISTERS` that are not plain decimal numerals -/
def regNames : List (String × Nat) := xNames ++ abiNames

/-- `REGISTERS[key]` for a string key that `int(key, 0)` refused. -/
def regByName (s : String) : Option Nat := regNames.lookup s

/-- `REGISTERS[i]` for an int key. -/
def regByInt (i : Int) : Option Nat := if 0 ≤ i ∧ i < 32 then some i.toNat else none

/-- `lookup_register(reg)` : `none` = ValueError. -/
def lookupRegister (r : RegOp) : Option Nat :=
  match r with
  | .int i => regByInt i
  | .str s =>
    match pyInt0 s.toList with
    | some i => regByInt i
    | none => regByName s

/-- `lookup_register(reg, compressed=True)` → 3-bit register number. -/
def lookupRegisterC (r : RegOp) : Option Nat :=
  match lookupRegister r with
  | some n => if n < 8 ∨ n > 15 then none else some (n - 8)
  | none => none

/-- string keys of the module-level `REGISTERS` dict (all 32·3+1 of them), for `constant name
    cannot shadow a register name` and for the `eval` environment of constants. -/
def registersStrKeys : List (String × Nat) :=
  (List.range 32).map (fun n => (toString n, n)) ++ regNames

end BB
