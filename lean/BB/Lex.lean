/-
  BB.Lex — `lex_tokens` (asm.py, def lex_tokens) on ASCII lines.

  Order of the Python: the `\s*error (.*)` special case, the `\s*string (.*)` special case (both
  decode the rest of the line with `unicode_escape`), otherwise `RE_TOKEN.findall` minus the comment:

      [#].*  |  [()]  |  (?: '(?:[^\\]|\\.\w*)' | [^\s,()#] )+

  a comment ends the line, a parenthesis is a token of its own, anything else runs up to the next
  separator / parenthesis / `#`, and a quoted character (`','`, `' '`, `'#'`, `'('`, `'''`, `'\n'`,
  `'\x41'` …) is taken whole whatever it contains (`plainTokens`, a left-to-right scanner).
  Before fix "keep quoted character literals intact" the ordinary path was: strip `#.*$`, pad
  parentheses with spaces, strip, split on `[\s,]+`, drop empty tokens (`plainTokensOld`); the two
  agree on every line without an apostrophe in front of its comment (`BB.plainTokens_eq_old`,
  Lemmas/FrontLex).
  Text outside ASCII.  Where the real code treats non-ASCII text as DATA it is modelled exactly:
    * the text of a `string` line (`stringEscape`): the re.sub of fix 71c7339 (a lone backslash in
      front of a character above U+00FF is doubled, so that it cannot fuse with the `\uXXXX` that
      stands in for that character), `.encode('latin-1', 'backslashreplace')` (U+0080..U+00FF stay
      single bytes, anything above becomes `\uxxxx` / `\Uxxxxxxxx`), `.decode('unicode_escape')`
      (bytes are Latin-1 code points, escapes are processed; an undecodable escape is
      UnicodeDecodeError, which `lexLine` turns into the AssemblerError of fix b49f1cd);
    * the message of an `error` line (`errorEscape`): `.encode('utf-8').decode('unicode_escape')`
      — the UTF-8 bytes are read back as Latin-1, so `é` becomes `Ã©` in the message (the message
      itself is never compared; the line raises an AssemblerError either way);
    * the comment of an ordinary line (everything from the `#` that RE_TOKEN takes as a comment):
      any characters.
  The boundary: a non-ASCII character in the CODE part of an ordinary line (`codePart`: mnemonic,
  operands, labels, separators — where Python's `\s`, `\w`, `str.lower`, `int(…, 0)` follow Unicode
  rules the model does not have: U+00A0 separates tokens, `٣` is the register 3) is
  `Err.unsupported`, and so is a line whose `error ` / `string ` keyword is preceded by non-ASCII
  white space.  Inside `string` text, escapes that denote a lone surrogate (`\ud800`; the real code
  then dies with UnicodeEncodeError in resolve_strings) and `\N{…}` are `unsupported`.
  A line containing `\n` is outside the model (`read_lines` never produces one).
-/
import BB.Expr
import BB.Item
namespace BB

/-- `[\s,]` : a separator of `re.split(r'[\s,]+', …)` (ASCII part of Python's `\s`) -/
def isSep (c : Char) : Bool := isPyWs c || c = ','

/-- `re.sub(r'#.*$', '', contents)` on a line without `\n` -/
def stripComment : List Char → List Char
  | [] => []
  | c :: cs => if c = '#' then [] else c :: stripComment cs

/-- `.replace('(', ' ( ').replace(')', ' ) ')` -/
def padParens : List Char → List Char
  | [] => []
  | c :: cs => if c = '(' ∨ c = ')' then ' ' :: c :: ' ' :: padParens cs else c :: padParens cs

/-- right-to-left scan: (the chunk that is still open at the front, the chunks after it) -/
def chunkGo : List Char → List Char × List (List Char)
  | [] => ([], [])
  | c :: cs =>
    let p := chunkGo cs
    if isSep c then ([], if p.1 = [] then p.2 else p.1 :: p.2) else (c :: p.1, p.2)

/-- the maximal runs of non-separator characters, in order
    (`strip`, `re.split(r'[\s,]+')` and the removal of empty tokens, together) -/
def chunks (l : List Char) : List (List Char) :=
  let p := chunkGo l
  if p.1 = [] then p.2 else p.1 :: p.2

/-- `re.match(r'\s*<kw> (.*)', contents)` : the rest of the line after the keyword and ONE space -/
def matchKeyword (kw : List Char) (l : List Char) : Option (List Char) :=
  let l' := dropWsLeft l
  if (kw ++ [' ']).isPrefixOf l' then some (l'.drop (kw.length + 1)) else none

def ofExprErr : ExprErr → Err
  | .error => .unsupported "unicode_escape"     -- does not occur: the decoder has no such outcome
  | .internal py => .internal py
  | .unsupported why => .unsupported why

/-- the ordinary path of `lex_tokens` as it was before character literals were kept whole -/
def plainTokensOld (l : List Char) : List (List Char) := chunks (padParens (stripComment l))

/-- `\w` of `re` on ASCII text -/
def isWordC (c : Char) : Bool := isIdentChar c

/-- `\w*'` : the length of the run of word characters, if a quote ends it -/
def wordsThenQuote : List Char → Option Nat
  | [] => none
  | c :: cs =>
    if c = '\'' then some 0
    else if isWordC c then (wordsThenQuote cs).map (· + 1) else none

/-- what follows an opening quote, matched against `(?:[^\\]|\\.\w*)'` : the number of characters
    of the match (closing quote included) -/
def litLen : List Char → Option Nat
  | c :: d :: r =>
    if c = '\\' then
      if d = '\n' then none else (wordsThenQuote r).map (· + 3)
    else if d = '\'' then some 2 else none
  | _ => none

/-- the open chunk (if any) in front of the finished ones -/
def pushChunk (p : List Char × List (List Char)) : List (List Char) :=
  if p.1 = [] then p.2 else p.1 :: p.2

/-- left-to-right scan, `k` = characters of a character literal still to be taken as they are:
    (the token that is still open at the front, the tokens after it) -/
def tokGo : Nat → List Char → List Char × List (List Char)
  | _, [] => ([], [])
  | k + 1, c :: cs => let p := tokGo k cs; (c :: p.1, p.2)
  | 0, c :: cs =>
    if c = '#' then ([], [])
    else if isSep c then ([], pushChunk (tokGo 0 cs))
    else if c = '(' ∨ c = ')' then ([], [c] :: pushChunk (tokGo 0 cs))
    else
      let p := tokGo (if c = '\'' then (litLen cs).getD 0 else 0) cs
      (c :: p.1, p.2)

/-- the ordinary path of `lex_tokens`: `RE_TOKEN.findall(contents)` without the comment -/
def plainTokens (l : List Char) : List (List Char) := pushChunk (tokGo 0 l)

/-- `chr(v).encode('utf-8')` for a Unicode scalar value -/
def utf8Enc (v : Nat) : List Nat :=
  if v ≤ 127 then [v]
  else if v ≤ 2047 then [v / 64 % 32 + 192, v % 64 + 128]
  else if v ≤ 65535 then [v / 4096 % 16 + 224, v / 64 % 64 + 128, v % 64 + 128]
  else [v / 262144 % 8 + 240, v / 4096 % 64 + 128, v / 64 % 64 + 128, v % 64 + 128]

/-- `s.encode('utf-8')`, each byte read back as a Latin-1 character -/
def utf8AsLatin1 (l : List Char) : List Char :=
  l.flatMap (fun c => (utf8Enc c.toNat).map Char.ofNat)

/-- `re.sub(r'(?<!\\)((?:\\\\)*)\\(?=[^\x00-\xff])', r'\1\\\\', value)` (fix 71c7339): the last
    backslash of an odd run of backslashes that directly precedes a character above U+00FF is
    doubled.  `k` = length of the run of backslashes just passed. -/
def fixBackslashes : Nat → List Char → List Char
  | _, [] => []
  | k, c :: cs =>
    if c = '\\' then c :: fixBackslashes (k + 1) cs
    else if k % 2 = 1 ∧ c.toNat > 255 then '\\' :: c :: fixBackslashes 0 cs
    else c :: fixBackslashes 0 cs

def hexDigitLower (n : Nat) : Char := if n < 10 then Char.ofNat (48 + n) else Char.ofNat (87 + n)

/-- `'%0*x' % (width, n)` -/
def hexLower : Nat → Nat → List Char
  | 0, _ => []
  | w + 1, n => hexDigitLower (n / 16 ^ w % 16) :: hexLower w n

/-- `.encode('latin-1', 'backslashreplace')`, the bytes written as Latin-1 characters -/
def backslashReplace (l : List Char) : List Char :=
  l.flatMap (fun c =>
    if c.toNat ≤ 255 then [c]
    else if c.toNat ≤ 65535 then '\\' :: 'u' :: hexLower 4 c.toNat
    else '\\' :: 'U' :: hexLower 8 c.toNat)

/-- the value of a `string` line from the text after the keyword (asm.py, lex_tokens) -/
def stringEscape (rest : List Char) : Except ExprErr (List Char) :=
  let x := backslashReplace (fixBackslashes 0 rest)
  unicodeEscapeAux (x.length + 1) x

/-- the message of an `error` line: `message.encode('utf-8').decode('unicode_escape')` -/
def errorEscape (rest : List Char) : Except ExprErr (List Char) :=
  let x := utf8AsLatin1 rest
  unicodeEscapeAux (x.length + 1) x

/-- the part of an ordinary line in front of its comment, as RE_TOKEN sees it (`k` = characters of
    a quoted character still to be taken as they are — the same bookkeeping as `tokGo`) -/
def codePart : Nat → List Char → List Char
  | _, [] => []
  | k + 1, c :: cs => c :: codePart k cs
  | 0, c :: cs =>
    if c = '#' then []
    else c :: codePart (if c = '\'' then (litLen cs).getD 0 else 0) cs

def lexTokens (l : List Char) : Except Err (List String) :=
  if l.contains '\n' then .error (.unsupported "newline in line")
  else
    match matchKeyword "error".toList l with
    | some rest =>
      match errorEscape rest with
      | .ok m => .ok ["error", String.ofList m]
      | .error e => .error (ofExprErr e)
    | none =>
      match matchKeyword "string".toList l with
      | some rest =>
        match stringEscape rest with
        | .ok m => .ok ["string", String.ofList m]
        | .error e => .error (ofExprErr e)
      | none =>
        if ¬ (codePart 0 l).all isAsciiC then .error (.unsupported "non-ascii outside string text and comments")
        else .ok ((plainTokens l).map String.ofList)

def lexTokensS (s : String) : Except Err (List String) := lexTokens s.toList

end BB
