/-
  BB.Lex — `lex_tokens` (asm.py, def lex_tokens) on ASCII lines.

  Order of the Python: the `\s*error (.*)` special case, the `\s*string (.*)` special case (both
  decode the rest of the line with `unicode_escape`), otherwise `RE_TOKEN.findall` minus the comment:

      [#].*  |  [()]  |  (?: '(?:[^\\]|\\.\w*)' | [^\s,()#] )+

  a comment ends the line, a parenthesis is a token of its own, anything else runs up to the next
  separator / parenthesis / `#`, and a quoted character (`','`, `' '`, `'#'`, `'('`, `'''`, `'\n'`,
  `'\x41'` …) is taken whole whatever it contains (`plainTokens`, a left-to-right scanner).
  Before fix "keep quoted character literals intact" the ordinary path was: strip `#.*$`, pad
  parentheses with spaces, strip, split on `[\s,]+`, drop empty tokens (`plainTokensOld`); the two
  agree on every line without an apostrophe in front of its comment (`BB.plainTokens_eq_old`,
  Lemmas/FrontLex).
  Lines containing a non-ASCII character or a `\n` are outside the model (`Err.unsupported`;
  `read_lines` never produces a line containing `\n`).
-/
import BB.Expr
import BB.Item
namespace BB

/-- `[\s,]` : a separator of `re.split(r'[\s,]+', …)` (ASCII part of Python's `\s`) -/
def isSep (c : Char) : Bool := isPyWs c || c = ','

/-- `re.sub(r'#.*$', '', contents)` on a line without `\n` -/
def stripComment : List Char → List Char
  | [] => []
  | c :: cs => if c = '#' then [] else c :: stripComment cs

/-- `.replace('(', ' ( ').replace(')', ' ) ')` -/
def padParens : List Char → List Char
  | [] => []
  | c :: cs => if c = '(' ∨ c = ')' then ' ' :: c :: ' ' :: padParens cs else c :: padParens cs

/-- right-to-left scan: (the chunk that is still open at the front, the chunks after it) -/
def chunkGo : List Char → List Char × List (List Char)
  | [] => ([], [])
  | c :: cs =>
    let p := chunkGo cs
    if isSep c then ([], if p.1 = [] then p.2 else p.1 :: p.2) else (c :: p.1, p.2)

/-- the maximal runs of non-separator characters, in order
    (`strip`, `re.split(r'[\s,]+')` and the removal of empty tokens, together) -/
def chunks (l : List Char) : List (List Char) :=
  let p := chunkGo l
  if p.1 = [] then p.2 else p.1 :: p.2

/-- `re.match(r'\s*<kw> (.*)', contents)` : the rest of the line after the keyword and ONE space -/
def matchKeyword (kw : List Char) (l : List Char) : Option (List Char) :=
  let l' := dropWsLeft l
  if (kw ++ [' ']).isPrefixOf l' then some (l'.drop (kw.length + 1)) else none

def ofExprErr : ExprErr → Err
  | .error => .unsupported "unicode_escape"     -- does not occur: the decoder has no such outcome
  | .internal py => .internal py
  | .unsupported why => .unsupported why

/-- the ordinary path of `lex_tokens` as it was before character literals were kept whole -/
def plainTokensOld (l : List Char) : List (List Char) := chunks (padParens (stripComment l))

/-- `\w` of `re` on ASCII text -/
def isWordC (c : Char) : Bool := isIdentChar c

/-- `\w*'` : the length of the run of word characters, if a quote ends it -/
def wordsThenQuote : List Char → Option Nat
  | [] => none
  | c :: cs =>
    if c = '\'' then some 0
    else if isWordC c then (wordsThenQuote cs).map (· + 1) else none

/-- what follows an opening quote, matched against `(?:[^\\]|\\.\w*)'` : the number of characters
    of the match (closing quote included) -/
def litLen : List Char → Option Nat
  | c :: d :: r =>
    if c = '\\' then
      if d = '\n' then none else (wordsThenQuote r).map (· + 3)
    else if d = '\'' then some 2 else none
  | _ => none

/-- the open chunk (if any) in front of the finished ones -/
def pushChunk (p : List Char × List (List Char)) : List (List Char) :=
  if p.1 = [] then p.2 else p.1 :: p.2

/-- left-to-right scan, `k` = characters of a character literal still to be taken as they are:
    (the token that is still open at the front, the tokens after it) -/
def tokGo : Nat → List Char → List Char × List (List Char)
  | _, [] => ([], [])
  | k + 1, c :: cs => let p := tokGo k cs; (c :: p.1, p.2)
  | 0, c :: cs =>
    if c = '#' then ([], [])
    else if isSep c then ([], pushChunk (tokGo 0 cs))
    else if c = '(' ∨ c = ')' then ([], [c] :: pushChunk (tokGo 0 cs))
    else
      let p := tokGo (if c = '\'' then (litLen cs).getD 0 else 0) cs
      (c :: p.1, p.2)

/-- the ordinary path of `lex_tokens`: `RE_TOKEN.findall(contents)` without the comment -/
def plainTokens (l : List Char) : List (List Char) := pushChunk (tokGo 0 l)

def lexTokens (l : List Char) : Except Err (List String) :=
  if ¬ l.all isAsciiC then .error (.unsupported "non-ascii")
  else if l.contains '\n' then .error (.unsupported "newline in line")
  else
    match matchKeyword "error".toList l with
    | some rest =>
      match unicodeEscape rest with
      | .ok m => .ok ["error", String.ofList m]
      | .error e => .error (ofExprErr e)
    | none =>
      match matchKeyword "string".toList l with
      | some rest =>
        match unicodeEscape rest with
        | .ok m => .ok ["string", String.ofList m]
        | .error e => .error (ofExprErr e)
      | none => .ok ((plainTokens l).map String.ofList)

def lexTokensS (s : String) : Except Err (List String) := lexTokens s.toList

end BB
