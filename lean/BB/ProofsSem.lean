/- Semantic properties: pseudo-instruction effects (C05), compression soundness (C04), eligible ⇒
   compressed / nothing grows (C20), compression preserves acceptance (C12). -/
import BB.Props.C05
import BB.Props.C04
import BB.Props.C20
import BB.Props.C12
