/-
  Driver.ExecProto — `regs`, `step`, `run` commands: execute emitted machine code with the
  specification's semantics (BB.Spec.exec) on deterministic pseudo-random register files.
-/
import BB.Model
open BB BB.Spec

namespace Driver

/-- register file derived from a seed; seeds 0..3 are degenerate on purpose (all zero, all equal,
    all ones, small values) so that every comparison outcome is reachable -/
def mkReg (seed : Nat) (r : Nat) : W :=
  if seed = 0 then 0
  else if seed = 1 then BitVec.ofNat 32 0x12345678
  else if seed = 2 then BitVec.ofInt 32 (-1)
  else if seed = 3 then BitVec.ofNat 32 (r % 3)
  else
    let x := (seed * 2654435761 + r * 40503 + 12345) % 4294967296
    let y := (x * 69069 + 1) % 4294967296
    -- mix in sign / small-magnitude variety
    if (seed + r) % 7 = 0 then BitVec.ofInt 32 (-(y % 5 : Nat))
    else if (seed + r) % 7 = 1 then BitVec.ofNat 32 (y % 9)
    else BitVec.ofNat 32 y

/-- data memory: a fixed pseudo-random byte per address (independent of where the code sits, so
    that two layouts of the same program see the same data) -/
def memByte (a : W) : BitVec 8 := BitVec.ofNat 8 ((a.toNat * 131 + 7) % 251)

def mkState (seed : Nat) (pc : Nat) : St :=
  { reg := mkReg seed, pc := BitVec.ofNat 32 pc, mem := memByte }

def showRegs (s : St) : String :=
  " ".intercalate ((List.range 32).map (fun r => toString (s.get r).toNat))

/-- fetch + decode at `pc` from the code bytes mapped at `base` : (instruction, length) -/
def fetch (code : List Nat) (base : Nat) (s : St) : Option (Instr32 × Nat) :=
  let o := s.pc.toNat - base
  let b := fun k => code.getD (o + k) 0
  let h := b 0 + 256 * b 1
  if b 0 % 4 = 3 then (decode32 (h + 65536 * b 2 + 16777216 * b 3)).map (fun i => (i, 4))
  else (decode16 h).map (fun c => (expand16 c, 2))

/-- the stores an instruction performs, as (address, byte) pairs, for reporting -/
def storesOf (i : Instr32) (s : St) : List (Nat × Nat) :=
  match i with
  | .store op base src imm =>
    let a := s.get base + imm32 imm
    let v := (s.get src).toNat
    let n := match op with | .sb => 1 | .sh => 2 | .sw => 4
    (List.range n).map (fun k => ((a + BitVec.ofNat 32 k).toNat, (v / 256 ^ k) % 256))
  | _ => []

def showStores (l : List (Nat × Nat)) : String :=
  if l.isEmpty then "-" else ",".intercalate (l.map (fun (a, v) => s!"{a}:{v}"))

/-- run until the pc leaves [base, base+len), decoding fails, or fuel runs out -/
def runLoop (code : List Nat) (base : Nat) : Nat → St → List (Nat × Nat) → Nat → (St × List (Nat × Nat) × Nat × String)
  | 0, s, st, n => (s, st, n, "fuel")
  | fuel + 1, s, st, n =>
    let pc := s.pc.toNat
    if pc < base ∨ pc ≥ base + code.length then (s, st, n, "left")
    else match fetch code base s with
      | none => (s, st, n, "illegal")
      | some (i, len) => runLoop code base fuel (exec i len s) (st ++ storesOf i s) (n + 1)

def handleExec (toks : List String) : Option String :=
  match toks with
  | ["regs", seed] =>
    match seed.toNat? with
    | some sd => some (showRegs (mkState sd 0))
    | none => some "bad-args"
  | ["step", code, pc, seed] =>
    -- one instruction located at `pc` (the code bytes are mapped at `pc`)
    match pc.toNat?, seed.toNat? with
    | some pc, some sd =>
      let bytes := (code.toList.foldr (fun c (acc : List Char × List Nat) =>
        match acc.1 with
        | [lo] => ([], (hexNib c * 16 + hexNib lo) :: acc.2)
        | _ => ([c], acc.2)) ([], [])).2
      let s := mkState sd pc
      match fetch bytes pc s with
      | none => some "illegal"
      | some (i, len) =>
        let s' := exec i len s
        some s!"{len} {s'.pc.toNat} {showRegs s'} {showStores (storesOf i s)}"
    | _, _ => some "bad-args"
  | ["run", code, base, start, seed, fuel] =>
    match base.toNat?, start.toNat?, seed.toNat?, fuel.toNat? with
    | some base, some start, some sd, some fuel =>
      let bytes := (code.toList.foldr (fun c (acc : List Char × List Nat) =>
        match acc.1 with
        | [lo] => ([], (hexNib c * 16 + hexNib lo) :: acc.2)
        | _ => ([c], acc.2)) ([], [])).2
      let s := mkState sd start
      let (s', st, n, why) := runLoop bytes base fuel s [] 0
      some s!"{why} {n} {s'.pc.toNat} {showRegs s'} {showStores st}"
    | _, _, _, _ => some "bad-args"
  | _ => none
where
  hexNib (c : Char) : Nat :=
    if '0' ≤ c ∧ c ≤ '9' then c.toNat - '0'.toNat
    else if 'a' ≤ c ∧ c ≤ 'f' then c.toNat - 'a'.toNat + 10
    else if 'A' ≤ c ∧ c ≤ 'F' then c.toNat - 'A'.toNat + 10 else 0

end Driver
