/-
  Driver.FrontProto — bbdrv commands of the text front end (expression evaluation,
  unicode_escape, lex_tokens, parse_item).  Text is hex-encoded UTF-8, "-" = empty.

    evalarith <hex expr> <name>=<int> ...   -> ok <int> | err | internal <PyType> | unsupported
    unesc <hex>                             -> ok <hex> | internal <PyType> | unsupported
    lex <hex line>                          -> ok <hex tok> ... | err asm | internal <PyType> | unsupported
    parse <hex line>                        -> ok <item> | none | err asm | internal <PyType> | unsupported
    parsetoks <hex tok> ...                 -> as parse, on an explicit token list (parse_item only)

  Canonical item rendering (harness/front.py produces the same from the real Python objects):
  class name, `ln:<line number>`, then the constructor's fields in order; strings in hex;
  registers `s:<hex token>` | `n:<int>`; immediates `A:<hex expr>` | `P:<hex ref>:<hex expr>` |
  `O:<hex ref>` | `H(<imm>)` | `L(<imm>)` | `V:<int>`; string lists as `<count> <hex> ...`.
-/
import BB.Expr
import BB.Lex
import BB.Parse
open BB

namespace Driver.Front

def hexVal (c : Char) : Nat :=
  if '0' ≤ c ∧ c ≤ '9' then c.toNat - '0'.toNat
  else if 'a' ≤ c ∧ c ≤ 'f' then c.toNat - 'a'.toNat + 10
  else if 'A' ≤ c ∧ c ≤ 'F' then c.toNat - 'A'.toNat + 10 else 0

def unhexBytes (s : String) : List Nat :=
  let rec go : List Char → List Nat
    | a :: b :: r => (hexVal a * 16 + hexVal b) :: go r
    | _ => []
  go s.toList

/-- hex of UTF-8 bytes → String; `none` if the bytes are not UTF-8 -/
def unhexStr? (s : String) : Option String :=
  if s = "-" then some "" else
  String.fromUTF8? (ByteArray.mk ((unhexBytes s).map (·.toUInt8)).toArray)

def hexDigit (n : Nat) : Char := if n < 10 then Char.ofNat (48 + n) else Char.ofNat (87 + n)
def hexByte (b : Nat) : String := String.ofList [hexDigit (b / 16 % 16), hexDigit (b % 16)]
def hexStr (s : String) : String :=
  let bs := s.toUTF8.toList.map (·.toNat)
  if bs.isEmpty then "-" else String.join (bs.map hexByte)

def showReg : RegOp → String
  | .str s => "s:" ++ hexStr s
  | .int i => s!"n:{i}"

def showImm : Imm → String
  | .arith e => "A:" ++ hexStr e
  | .position r e => "P:" ++ hexStr r ++ ":" ++ hexStr e
  | .offset r => "O:" ++ hexStr r
  | .hi e => "H(" ++ showImm e ++ ")"
  | .lo e => "L(" ++ showImm e ++ ")"
  | .value v => s!"V:{v}"

def b01 (b : Bool) : String := if b then "1" else "0"

def showInstr : Instr → String
  | .r n rd rs1 rs2 => s!"RTypeInstruction {hexStr n} {showReg rd} {showReg rs1} {showReg rs2}"
  | .i n rd rs1 imm aj => s!"ITypeInstruction {hexStr n} {showReg rd} {showReg rs1} {showImm imm} {b01 aj}"
  | .ie n => s!"IETypeInstruction {hexStr n}"
  | .s n rs1 rs2 imm => s!"STypeInstruction {hexStr n} {showReg rs1} {showReg rs2} {showImm imm}"
  | .b n rs1 rs2 imm => s!"BTypeInstruction {hexStr n} {showReg rs1} {showReg rs2} {showImm imm}"
  | .u n rd imm => s!"UTypeInstruction {hexStr n} {showReg rd} {showImm imm}"
  | .j n rd imm => s!"JTypeInstruction {hexStr n} {showReg rd} {showImm imm}"
  | .fence n succ pred => s!"FenceInstruction {hexStr n} {showReg succ} {showReg pred}"
  | .a n rd rs1 rs2 aq rl => s!"ATypeInstruction {hexStr n} {showReg rd} {showReg rs1} {showReg rs2} {showReg aq} {showReg rl}"
  | .al n rd rs1 aq rl => s!"ALTypeInstruction {hexStr n} {showReg rd} {showReg rs1} {showReg aq} {showReg rl}"
  | .cr n rdRs1 rs2 => s!"CRTypeInstruction {hexStr n} {showReg rdRs1} {showReg rs2}"
  | .crj n rdRs1 aj => s!"CRJTypeInstruction {hexStr n} {showReg rdRs1} {b01 aj}"
  | .cre n => s!"CRETypeInstruction {hexStr n}"
  | .ci n rdRs1 imm => s!"CITypeInstruction {hexStr n} {showReg rdRs1} {showImm imm}"
  | .cia n imm => s!"CIATypeInstruction {hexStr n} {showImm imm}"
  | .cin n => s!"CINTypeInstruction {hexStr n}"
  | .css n rs2 imm => s!"CSSTypeInstruction {hexStr n} {showReg rs2} {showImm imm}"
  | .ciw n rd imm => s!"CIWTypeInstruction {hexStr n} {showReg rd} {showImm imm}"
  | .cl n rd rs1 imm => s!"CLTypeInstruction {hexStr n} {showReg rd} {showReg rs1} {showImm imm}"
  | .cs n rs1 rs2 imm => s!"CSTypeInstruction {hexStr n} {showReg rs1} {showReg rs2} {showImm imm}"
  | .ca n rdRs1 rs2 => s!"CATypeInstruction {hexStr n} {showReg rdRs1} {showReg rs2}"
  | .cb n rs1 imm => s!"CBTypeInstruction {hexStr n} {showReg rs1} {showImm imm}"
  | .cj n imm => s!"CJTypeInstruction {hexStr n} {showImm imm}"

def showStrs (l : List String) : String :=
  " ".intercalate (toString l.length :: l.map hexStr)

/-- canonical one-line rendering of an item: class name, line number, fields in constructor order -/
def showItem : Item → String
  | .label l n => s!"Label ln:{l.number} {hexStr n}"
  | .constant l n e => s!"Constant ln:{l.number} {hexStr n} {showImm e}"
  | .includeBytes l p sz => s!"IncludeBytes ln:{l.number} {hexStr p} {sz}"
  | .string l v => s!"String ln:{l.number} {hexStr v}"
  | .sequence l n vs => s!"Sequence ln:{l.number} {hexStr n} {showStrs vs}"
  | .pack l f i => s!"Pack ln:{l.number} {hexStr f} {showImm i}"
  | .shorthandPack l n i => s!"ShorthandPack ln:{l.number} {hexStr n} {showImm i}"
  | .align l a => s!"Align ln:{l.number} {a}"
  | .blob l d => s!"Blob ln:{l.number} {d.length}"
  | .pseudo l n args => s!"PseudoInstruction ln:{l.number} {hexStr n} {showStrs args}"
  | .instr l ins => s!"ln:{l.number} {showInstr ins}"

def showErr : Err → String
  | .asm _ => "err asm"
  | .internal py => "internal " ++ py
  | .unsupported _ => "unsupported"

def showExprErr : ExprErr → String
  | .error => "err"
  | .internal py => "internal " ++ py
  | .unsupported _ => "unsupported"

def parseBinding (t : String) : Option (String × Int) :=
  match t.splitOn "=" with
  | [n, v] => v.toInt?.map (fun i => (n, i))
  | _ => none

def allSome {α} (l : List (Option α)) : Option (List α) :=
  l.foldr (fun x acc => match x, acc with | some a, some r => some (a :: r) | _, _ => none) (some [])

def frontLine (contents : String) : Line := { file := "f", number := 1, contents := contents }

end Driver.Front

namespace Driver
open Driver.Front

/-- `none` if the command is not one of the front-end commands -/
def handleFront (toks : List String) : Option String :=
  match toks with
  | "evalarith" :: h :: binds =>
    some <|
      match unhexStr? h, allSome (binds.map parseBinding) with
      | some expr, some env =>
        match evalArith expr (fun n => env.lookup n) with
        | .ok v => s!"ok {v}"
        | .error e => showExprErr e
      | _, _ => "bad-args"
  | ["unesc", h] =>
    some <|
      match unhexStr? h with
      | some s =>
        match unicodeEscape s.toList with
        | .ok r => "ok " ++ hexStr (String.ofList r)
        | .error e => showExprErr e
      | none => "bad-args"
  | ["lex", h] =>
    some <|
      match unhexStr? h with
      | some s =>
        match lexTokens s.toList with
        | .ok ts => " ".intercalate ("ok" :: ts.map hexStr)
        | .error e => showErr e
      | none => "bad-args"
  | ["parse", h] =>
    some <|
      match unhexStr? h with
      | some s =>
        match lexParseLine (frontLine s) with
        | .ok none => "none"
        | .ok (some it) => "ok " ++ showItem it
        | .error e => showErr e
      | none => "bad-args"
  | "parsetoks" :: hs =>
    some <|
      match allSome (hs.map unhexStr?) with
      | some ts =>
        match parseItem (frontLine "") ts with
        | .ok it => "ok " ++ showItem it
        | .error e => showErr e
      | none => "bad-args"
  | _ => none

end Driver
