/-
  bbdrv — line-protocol driver around the executable model and specification.
  One request per line on stdin, one reply per line on stdout.  See DESIGN.md §3.
-/
import BB.Model
import Driver.Proto

def main : IO Unit := do
  let stdin ← IO.getStdin
  let stdout ← IO.getStdout
  Driver.loop stdin stdout
