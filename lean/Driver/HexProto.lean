/-
  Driver.HexProto — the Intel HEX specification decoder and the command-line model.
    hexdec <hex of the .hex file's text>
      reply: ok <start address> <hex bytes> | empty | noncontiguous | none
    cli <hex cwd> <hex input> <0|1 compress> <ninc> <hex dir>… <hex output> <hex labels|-> <hex hexoffset|->
        <hex definitions dir|-> <nfiles> (<hex path> <hex bytes>)… <ndirs> <hex dirpath>…
      reply: exit <code> <nwritten> (<hex path> <hex bytes>)…     files whose contents differ from the input fs
           | unsupported <hex why>
      (the hex file's contents are printed as the decoded image: bytes "H" <offset> <hex bytes>)
-/
import BB.Model
import Driver.Proto0
open BB

namespace Driver

def handleHexdec (h : String) : String :=
  let text := (unhexBytes h).map Char.ofNat
  match Hex.decode text with
  | none => "none"
  | some ps =>
    match ps with
    | [] => "empty"
    | _ =>
      match Hex.normal ps with
      | some (a, bs) => s!"ok {a} {hexBytes bs}"
      | none => "noncontiguous"

/-- stand-in for intelhex.bin2hex inside the driver: the file content is the *image* itself,
    printed symbolically (the real file is checked by `hexdec`) -/
def symbolicHex : Cli.HexEnc := fun off bs =>
  if off < 0 ∨ off + bs.length > 4294967296 then .error [] else
  .ok (("H " ++ toString off ++ " ").toUTF8.toList.map (·.toNat) ++ bs)

def optStr (s : String) : Option String := if s = "-" then none else some (unhexStr s)

def handleCli (toks : List String) : Option String :=
  match toks with
  | "cli" :: cwd :: inp :: c :: ninc :: rest =>
    match ninc.toNat? with
    | none => some "bad-args"
    | some ninc =>
      let incs := (rest.take ninc).map unhexStr
      match rest.drop ninc with
      | out :: lab :: hexoff :: defs :: nf :: rest =>
        match nf.toNat? with
        | none => some "bad-args"
        | some nf =>
          let fl := rest.take (2 * nf)
          let rec pairs : List String → List (String × List Nat)
            | p :: b :: r => (unhexStr p, unhexBytes b) :: pairs r
            | _ => []
          match rest.drop (2 * nf) with
          | _nd :: dps =>
            let fs : FS := { files := pairs fl, dirs := dps.map unhexStr }
            let args : Cli.Args := {
              input := unhexStr inp, compress := c = "1", includeDirs := incs,
              output := unhexStr out, labels := optStr lab, hexOffset := optStr hexoff,
              definitionsDir := optStr defs }
            match Cli.run symbolicHex fs (unhexStr cwd) args with
            | (.unsupported why, _) => some s!"unsupported {hexStr why}"
            | (st, fs') =>
              let n := match st with | .code n => n | .osError n _ => n | .unsupported _ => 0
              let changed := fs'.files.filter (fun (p, b) => fs.readBytes p ≠ some b)
              let body := changed.map (fun (p, b) => s!"{hexStr p} {hexBytes b}")
              some (" ".intercalate (s!"exit {n}" :: toString changed.length :: body))
          | [] => some "bad-args"
      | _ => some "bad-args"
  | _ => none

def handleHex (toks : List String) : Option String :=
  match toks with
  | ["hexdec", h] => some (handleHexdec (if h = "-" then "" else h))
  | "cli" :: _ => handleCli toks
  | _ => none

end Driver
