/-
  Driver.Proto — request parsing / reply printing for bbdrv.
-/
import BB.Model
import Driver.Proto0
import Driver.ExecProto
import Driver.AsmProto
import Driver.FrontProto
import Driver.DfuProto
import Driver.HexProto
open BB BB.Spec

namespace Driver

def parseArg (t : String) : Option Arg :=
  if t.startsWith "r:" then some (.r (.str (unhexStr (t.drop 2).toString)))
  else if t.startsWith "n:" then (t.drop 2).toString.toInt?.map (fun i => .r (.int i))
  else if t.startsWith "i:" then (t.drop 2).toString.toInt?.map (fun i => .i i)
  else none

def parseOpnd (t : String) : Option Opnd :=
  if t.startsWith "R" then (t.drop 1).toString.toNat?.map .reg
  else if t.startsWith "I" then (t.drop 1).toString.toInt?.map .imm
  else none

def showOpnd : Opnd → String
  | .reg n => s!"R{n}"
  | .imm v => s!"I{v}"

def showEnc : EncRes → String
  | .ok w => s!"ok {w}"
  | .error .value => "err value"
  | .error .type => "err type"
  | .error .key => "err key"

def showI32 : Instr32 → String
  | .r op rd rs1 rs2 => s!"r {repr op} {rd} {rs1} {rs2}"
  | .i op rd rs1 imm => s!"i {repr op} {rd} {rs1} {imm}"
  | .sh op rd rs1 sh => s!"sh {repr op} {rd} {rs1} {sh}"
  | .load op rd rs1 imm => s!"load {repr op} {rd} {rs1} {imm}"
  | .store op b sr imm => s!"store {repr op} {b} {sr} {imm}"
  | .branch op a b imm => s!"branch {repr op} {a} {b} {imm}"
  | .lui rd f => s!"lui {rd} {f}"
  | .auipc rd f => s!"auipc {rd} {f}"
  | .jal rd imm => s!"jal {rd} {imm}"
  | .jalr rd rs1 imm => s!"jalr {rd} {rs1} {imm}"
  | .fence fm p sc rd rs1 => s!"fence {fm} {p} {sc} {rd} {rs1}"
  | .fenceI => "fence.i"
  | .ecall => "ecall"
  | .ebreak => "ebreak"
  | .csr op rd src c => s!"csr {repr op} {rd} {src} {c}"
  | .lr aq rl rd rs1 => s!"lr {aq} {rl} {rd} {rs1}"
  | .sc aq rl rd rs1 rs2 => s!"sc {aq} {rl} {rd} {rs1} {rs2}"
  | .amo op aq rl rd rs1 rs2 => s!"amo {repr op} {aq} {rl} {rd} {rs1} {rs2}"

def allSome {α} (l : List (Option α)) : Option (List α) :=
  l.foldr (fun x acc => match x, acc with | some a, some r => some (a :: r) | _, _ => none) (some [])

def handle (line : String) : String :=
  let toks := (line.trimAscii.toString.splitOn " ").filter (· ≠ "")
  match toks with
  | "enc" :: name :: args =>
    match allSome (args.map parseArg) with
    | some as => showEnc (encode name as)
    | none => "bad-args"
  | "chk32" :: name :: rest =>
    match rest.reverse with
    | w :: ops =>
      match w.toNat?, allSome (ops.reverse.map parseOpnd) with
      | some w, some ops =>
        match intent32 name ops with
        | none => "no-intent"
        | some i => if decode32 w = some i then "yes" else s!"no {repr (decode32 w)}"
      | _, _ => "bad-args"
    | [] => "bad-args"
  | "chk16" :: name :: rest =>
    match rest.reverse with
    | w :: ops =>
      match w.toNat?, allSome (ops.reverse.map parseOpnd) with
      | some w, some ops =>
        match intent16 name ops with
        | none => "no-intent"
        | some i => if decode16 w = some i then "yes" else s!"no {repr (decode16 w)}"
      | _, _ => "bad-args"
    | [] => "bad-args"
  | "legal32" :: name :: ops =>
    match allSome (ops.map parseOpnd) with
    | some ops => if legal32 name ops then "yes" else "no"
    | none => "bad-args"
  | "legal16" :: name :: ops =>
    match allSome (ops.map parseOpnd) with
    | some ops => if legal16 name ops then "yes" else "no"
    | none => "bad-args"
  | ["dec32", w] =>
    match w.toNat? with
    | some w => match decode32 w with | some i => showI32 i | none => "none"
    | none => "bad-args"
  | ["eligible", w] =>
    -- is the instruction this 32-bit word denotes the expansion of a legal RV32C instruction?
    match w.toNat? with
    | some w => match decode32 w with
      | some i => if eligible i then "yes" else "no"
      | none => "none"
    | none => "bad-args"
  | ["dec16x", h] =>
    match h.toNat? with
    | some h => match decode16 h with | some c => showI32 (expand16 c) | none => "none"
    | none => "bad-args"
  | ["dec16", h] =>
    match h.toNat? with
    | some h =>
      match decode16 h with
      | none => "none"
      | some ci => let (n, ops) := ci.text; " ".intercalate (n :: ops.map showOpnd)
    | none => "bad-args"
  | ["hilo", v] =>
    match v.toInt? with
    | some v => s!"{relocateHi v} {relocateLo v}"
    | none => "bad-args"
  | ["sext", v, b] =>
    match v.toInt?, b.toNat? with
    | some v, some b => s!"{signExtend v b}"
    | _, _ => "bad-args"
  | ["pyint", h] =>
    match pyInt0 (unhexStr h).toList with
    | some i => s!"{i}"
    | none => "none"
  | ["reg", h] =>
    match lookupRegister (.str (unhexStr h)) with
    | some n => s!"{n}"
    | none => "none"
  | ["ping"] => "pong"
  | _ =>
    match handleExec toks with
    | some r => r
    | none =>
      match handleFront toks with
      | some r => r
      | none =>
        match handleAsm toks with
        | some r => r
        | none =>
          match handleHex toks with
          | some r => r
          | none => "bad-request"

partial def loop (i o : IO.FS.Stream) (st : DfuState := DfuState.init) : IO Unit := do
  let line ← i.getLine
  if line.isEmpty then return ()
  let toks := (line.trimAscii.toString.splitOn " ").filter (· ≠ "")
  match handleDfu st toks with
  | some (st', reply) =>
    o.putStrLn reply
    o.flush
    loop i o st'
  | none =>
    o.putStrLn (handle line)      -- batch commands: no flush per line (block-buffered output)
    loop i o st

end Driver
