/-
  Driver.AsmProto — `asms` (assemble source text) and `asmfs` (assemble over a filesystem model).
    asms  <0|1> <hex source>
    asmfs <0|1> <hex cwd> <s|p> <hex source-or-path> <ndirs> <hex dir>… <nfiles> (<hex path> <hex bytes>)… <nd> <hex dirpath>…
  reply: ok <hex bytes> L <hex name>=<int>,… K <hex name>=<int>,…
       | err asm <hex file> <line> | internal <PyType> | unsupported <hex why>
-/
import BB.Model
import Driver.Proto0
open BB

namespace Driver

def showDict (d : Dict) : String :=
  if d.isEmpty then "-" else ",".intercalate (d.map (fun (k, v) => s!"{hexStr k}={v}"))

def showAsm : Except Err AsmResult → String
  | .ok r => s!"ok {hexBytes r.bytes} L {showDict r.labels} K {showDict r.constants}"
  | .error (.asm line) => s!"err asm {hexStr line.file} {line.number}"
  | .error (.internal t) => s!"internal {t}"
  | .error (.unsupported w) => s!"unsupported {hexStr w}"

def takeN {α} (n : Nat) (l : List α) : List α × List α := (l.take n, l.drop n)

def handleAsm (toks : List String) : Option String :=
  match toks with
  | ["asms", c, src] =>
    let fs : FS := { files := [], dirs := ["/"] }
    some (showAsm (assembleText fs "/" [] (c = "1") (.source (unhexStr src))))
  | "asmfs" :: c :: cwd :: kind :: inp :: rest =>
    match rest with
    | nd :: rest =>
      match nd.toNat? with
      | none => some "bad-args"
      | some nd =>
        let (dirs, rest) := takeN nd rest
        match rest with
        | nf :: rest =>
          match nf.toNat? with
          | none => some "bad-args"
          | some nf =>
            let (fl, rest) := takeN (2 * nf) rest
            let rec pairs : List String → List (String × List Nat)
              | p :: b :: r => (unhexStr p, unhexBytes b) :: pairs r
              | _ => []
            match rest with
            | ndp :: rest =>
              let dps := rest.map unhexStr
              let fs : FS := { files := pairs fl, dirs := dps }
              let input := if kind = "p" then Input.path (unhexStr inp) else Input.source (unhexStr inp)
              some (showAsm (assembleText fs (unhexStr cwd) (dirs.map unhexStr) (c = "1") input))
            | [] => some "bad-args"
        | [] => some "bad-args"
    | [] => some "bad-args"
  | _ => none

end Driver
