/- Driver.Proto0 — hex helpers shared by the protocol modules -/
import BB.Model
namespace Driver

def hexVal (c : Char) : Nat :=
  if '0' ≤ c ∧ c ≤ '9' then c.toNat - '0'.toNat
  else if 'a' ≤ c ∧ c ≤ 'f' then c.toNat - 'a'.toNat + 10
  else if 'A' ≤ c ∧ c ≤ 'F' then c.toNat - 'A'.toNat + 10 else 0

/-- decode a hex string into bytes -/
def unhexBytes (s : String) : List Nat :=
  let rec go : List Char → List Nat
    | a :: b :: r => (hexVal a * 16 + hexVal b) :: go r
    | _ => []
  go s.toList

/-- hex of UTF-8 bytes → String ("-" encodes the empty string) -/
def unhexStr (s : String) : String :=
  if s = "-" then "" else
  let bs := unhexBytes s
  match String.fromUTF8? (ByteArray.mk (bs.map (·.toUInt8)).toArray) with
  | some t => t
  | none => ""

def hexDigit (n : Nat) : Char := if n < 10 then Char.ofNat (48 + n) else Char.ofNat (87 + n)
def hexByte (b : Nat) : String := String.ofList [hexDigit (b / 16 % 16), hexDigit (b % 16)]
def hexBytes (bs : List Nat) : String := if bs.isEmpty then "-" else String.join (bs.map hexByte)
def hexStr (s : String) : String := hexBytes (s.toUTF8.toList.map (·.toNat))

end Driver
