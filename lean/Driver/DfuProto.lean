/-
  Driver.DfuProto — the dfu-* commands of bbdrv: a STATEFUL protocol, so that the real Python
  host (bronzebeard.dfu.cli_main with an injected `usb` package) can talk to the Lean device
  step by step, plus `dfu-host`, which runs the Lean host model against the Lean device.

    dfu-begin <page_count> <schedule> <flash>     -> ok
    dfu-req <bmRequestType> <bRequest> <wValue> <hex data ("-" = empty) | wLength (IN transfers)>
                                                  -> b<hex> | c<count> | s          (s = stall)
    dfu-sleep <ms>                                -> ok
    dfu-end                                       -> <report>
    dfu-host <page_count> <hex firmware> <schedule> <flash>
                                                  -> exit=<n> msg=<m> done=<0|1> halted=<0|1> fuel=<n> trace=<events> <report>

  schedule :=  S<startErr>/I<t,t,...>/O<t,t,...>:<doneTimeout>:<fault>/O...      (one O per operation, in order;
               operations beyond the list: no busy poll, timeout 0, no fault; idle timeouts beyond the list: 0;
               <fault> = <n> : the operation ends in dfuERROR with bStatus n;  q<n> : status-only flavour,
               bStatus n in the completing reply, bState dfuDNLOAD_IDLE)
  flash    :=  one character per page from page 0: o = original, e = erased, d = programmed; "-" = all original
  report   :=  nreq=<n> stalls=<n> mon=<5 bits: writeUnerased busyRequest earlyRequest addrRange misaligned>
               state=<code> status=<n> clock=<ms> erased=<p,p,...|-> written=<p,...|-> flash=<p:e|p:d<hex>|...,...|->
  events   :=  R<bm>.<breq>.<wvalue>.<hex data|L<wLength>>=<reply>  and  S<ms>, comma separated ("-" = none)

  Imports only the DFU model files.
-/
import BB.Dfu.Run
open BB BB.Dfu

namespace Driver.Dfu

def hexVal (c : Char) : Nat :=
  if '0' ≤ c ∧ c ≤ '9' then c.toNat - '0'.toNat
  else if 'a' ≤ c ∧ c ≤ 'f' then c.toNat - 'a'.toNat + 10
  else if 'A' ≤ c ∧ c ≤ 'F' then c.toNat - 'A'.toNat + 10 else 0

def unhex (s : String) : List Nat :=
  let rec go : List Char → List Nat → List Nat
    | a :: b :: r, acc => go r ((hexVal a * 16 + hexVal b) :: acc)
    | _, acc => acc.reverse
  if s = "-" then [] else go s.toList []

def hexDigit (n : Nat) : Char := if n < 10 then Char.ofNat (48 + n) else Char.ofNat (87 + n)

def hex (bs : List Nat) : String :=
  if bs.isEmpty then "-"
  else String.ofList (bs.foldr (fun b acc => hexDigit (b / 16 % 16) :: hexDigit (b % 16) :: acc) [])

def splitChars (sep : Char) (cs : List Char) : List (List Char) :=
  let rec go : List Char → List Char → List (List Char) → List (List Char)
    | [], cur, acc => (cur.reverse :: acc).reverse
    | c :: r, cur, acc => if c = sep then go r [] (cur.reverse :: acc) else go r (c :: cur) acc
  go cs [] []

def natOf (cs : List Char) : Option Nat :=
  if cs.isEmpty then none
  else cs.foldl (fun acc c => match acc with
    | some n => if '0' ≤ c ∧ c ≤ '9' then some (n * 10 + (c.toNat - 48)) else none
    | none => none) (some 0)

def natList (cs : List Char) : Option (List Nat) :=
  if cs.isEmpty then some []
  else (splitChars ',' cs).foldr (fun x acc => match natOf x, acc with
    | some n, some r => some (n :: r) | _, _ => none) (some [])

def parseOp (cs : List Char) : Option OpSched :=
  match splitChars ':' cs with
  | [b, d, f] =>
    let (soft, f) := match f with | 'q' :: r => (true, r) | _ => (false, f)
    match natList b, natOf d, natOf f with
    | some busy, some doneTimeout, some fault => some { busy, doneTimeout, fault, statusOnly := soft }
    | _, _, _ => none
  | _ => none

def parseSchedule (s : String) : Option Schedule :=
  match splitChars '/' s.toList with
  | ('S' :: se) :: ('I' :: it) :: ops =>
    match natOf se, natList it with
    | some startErr, some idle =>
      let ops' := ops.foldr (fun x acc => match x, acc with
        | 'O' :: o, some r => (parseOp o).map (· :: r)
        | _, _ => none) (some [])
      ops'.map fun l => { startErr, idleTimeout := fun i => idle.getD i 0, op := fun i => l.getD i {} }
    | _, _ => none
  | _ => none

def parseFlash (s : String) : Option (Nat → Cell) :=
  if s = "-" then some fun _ => .orig
  else
    let cells := s.toList.map fun c => if c = 'e' then Cell.erased else if c = 'd' then Cell.data [] else Cell.orig
    if s.toList.all (fun c => c = 'o' ∨ c = 'e' ∨ c = 'd') then some fun p => cells.getD p .orig else none

def showReply : Response → String
  | .unit => "u"
  | .bytes bs => "b" ++ hex bs
  | .count n => s!"c{n}"
  | .stall => "s"

def bit (b : Bool) : String := if b then "1" else "0"

def csv (l : List Nat) : String := if l.isEmpty then "-" else ",".intercalate (l.map toString)

def showCell (p : Nat) : Cell → Option String
  | .orig => none
  | .erased => some s!"{p}:e"
  | .data bs => some s!"{p}:d{hex bs}"

def report (d : Device) : String :=
  let cells := (List.range (d.pageCount + 8)).filterMap fun p => showCell p (d.flash p)
  let m := d.mon
  s!"nreq={d.nreq} stalls={d.stalls} mon={bit m.writeUnerased}{bit m.busyRequest}{bit m.earlyRequest}{bit m.addrRange}{bit m.misaligned} " ++
  s!"state={d.state.code} status={d.status} clock={d.clock} erased={csv d.erasedLog} written={csv d.writtenLog} " ++
  s!"flash={if cells.isEmpty then "-" else ",".intercalate cells}"

def showEvent : Event → String
  | .req r reply =>
    let p := match r.payload with | .out data => hex data | .inn n => s!"L{n}"
    s!"R{r.bmRequestType}.{r.bRequest}.{r.wValue}.{p}={showReply reply}"
  | .sleep ms => s!"S{ms}"

def showMsg : ExitMsg → String
  | .ok => "ok"
  | .tooLarge => "tooLarge"
  | .eraseFailed a s => s!"eraseFailed:{a}:{s}"
  | .addrFailed a s => s!"addrFailed:{a}:{s}"
  | .writeFailed a s => s!"writeFailed:{a}:{s}"
  | .assertion => "assertion"
  | .usbError => "usbError"
  | .keyError => "keyError"
  | .internal => "internal"

def showResult (fuel : Nat) (r : Result) : String :=
  let tr := if r.trace.isEmpty then "-" else ",".intercalate (r.trace.map showEvent)
  s!"exit={r.exitCode} msg={showMsg r.exitMsg} done={bit r.done} halted={bit r.halted} fuel={fuel} trace={tr} {report r.dev}"

end Driver.Dfu

namespace Driver
open Driver.Dfu

structure DfuState where
  dev : Option Device := none

def DfuState.init : DfuState := {}

/-- the dfu-* commands; `none` when `toks` is not one of them -/
def handleDfu (st : DfuState) (toks : List String) : Option (DfuState × String) :=
  match toks with
  | ["dfu-begin", pc, sched, flash] =>
    match natOf pc.toList, parseSchedule sched, parseFlash flash with
    | some pc, some s, some f => some ({ dev := some (Device.init pc s f) }, "ok")
    | _, _, _ => some (st, "bad-args")
  | ["dfu-req", bm, breq, wv, payload] =>
    match st.dev, natOf bm.toList, natOf breq.toList, natOf wv.toList with
    | some d, some bm, some breq, some wv =>
      let pl : Option Payload :=
        if bm / 128 % 2 = 1 then (natOf payload.toList).map .inn else some (.out (unhex payload))
      match pl with
      | some pl =>
        let (d', reply) := d.handle ⟨bm, breq, wv, pl⟩
        some ({ dev := some d' }, showReply reply)
      | none => some (st, "bad-args")
    | none, _, _, _ => some (st, "no-device")
    | _, _, _, _ => some (st, "bad-args")
  | ["dfu-sleep", ms] =>
    match st.dev, natOf ms.toList with
    | some d, some ms => some ({ dev := some (d.tick ms) }, "ok")
    | none, _ => some (st, "no-device")
    | _, _ => some (st, "bad-args")
  | ["dfu-end"] =>
    match st.dev with
    | some d => some ({ dev := none }, report d)
    | none => some (st, "no-device")
  | ["dfu-host", pc, fw, sched, flash] =>
    match natOf pc.toList, parseSchedule sched, parseFlash flash with
    | some pc, some s, some f =>
      let fwb := unhex fw
      some (st, showResult (fuelBound ⟨fwb, pc⟩ s) (run fwb pc s f))
    | _, _, _ => some (st, "bad-args")
  | cmd :: _ => if cmd.startsWith "dfu-" then some (st, "bad-request") else none
  | [] => none

end Driver
