import BBSlow
#print axioms BB.Props.C12.progFar_hyps
#print axioms BB.Props.C12.progFar_alignFree
#print axioms BB.Props.C12.progFar_not_near
#print axioms BB.Props.C12.progFar_plain
#print axioms BB.Props.C12.progFar_compressed_ok
#print axioms BB.Props.C12.progFar_compressed
