-- modules whose kernel evaluations take minutes (closed runs of the model over megabyte-sized programs):
-- built and audited by the thorough tier only
import BB.Props.C12ProgramFar
