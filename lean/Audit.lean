import BB
#print axioms BB.Props.Tables.instrTable_matches
#print axioms BB.Props.Tables.registers_str_match
#print axioms BB.Props.Tables.registers_int_match
#print axioms BB.Props.C01.enc32_sound
#print axioms BB.Props.C01.encode32_sound
#print axioms BB.Props.C01.enc32_inj
