import BB
#print axioms BB.Props.Tables.instrTable_matches
#print axioms BB.Props.Tables.registers_str_match
#print axioms BB.Props.Tables.registers_int_match
