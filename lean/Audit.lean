import BB
#print axioms BB.Props.Tables.instrTable_matches
#print axioms BB.Props.Tables.registers_str_match
#print axioms BB.Props.Tables.registers_int_match
#print axioms BB.Props.C01.enc32_sound
#print axioms BB.Props.C01.encode32_sound
#print axioms BB.Props.C01.enc32_inj
#print axioms BB.Props.C07.hi_range
#print axioms BB.Props.C07.lo_range
#print axioms BB.Props.C07.hi_lo_sum
#print axioms BB.Props.C07.hi_lo_sum_exact
#print axioms BB.Props.C07.utype_accepts_hi
#print axioms BB.Props.C07.itype_accepts_lo
#print axioms BB.Props.C07.stype_accepts_lo
#print axioms BB.Props.C07.pair_rebuilds
#print axioms BB.Lemmas.walk_layout
#print axioms BB.Props.C03.assemble_layout
