import BB.Model
import BB.Generated.Tables
import BB.Props.Tables
import BB.Props.C01
import BB.Props.C07
import BB.Props.C03
import BB.ProofsEnc16
